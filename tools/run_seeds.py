#!/usr/bin/env python3
"""run_seeds.py [name-regex] [--tier quick|thorough]: run the owning property's check against every seeded
change (applied to a scratch copy of /repo, never to /repo itself) and record which obligation fires."""
import json, os, re, shutil, subprocess, sys, tempfile
VERIF = os.path.dirname(os.path.dirname(os.path.abspath(__file__)))
pat = sys.argv[1] if len(sys.argv) > 1 and not sys.argv[1].startswith('--') else '.'
# options: --tier T, --verus-first (skip Kani when the Verus units already report the violation), --verus-only (with --verus-first: never run Kani)
tier = 'quick'
if '--tier' in sys.argv:
    tier = sys.argv[sys.argv.index('--tier') + 1]
for name in sorted(os.listdir(os.path.join(VERIF, 'seeded'))):
    d = os.path.join(VERIF, 'seeded', name)
    if not re.search(pat, name) or not os.path.exists(os.path.join(d, 'patch.diff')):
        continue
    meta = json.load(open(os.path.join(d, 'meta.json')))
    prop = meta['property']
    scratch = tempfile.mkdtemp(prefix='orxverif.seed.', dir='/var/tmp')
    try:
        repo = os.path.join(scratch, 'repo')
        subprocess.run(['rsync', '-a', '--exclude', 'target', '/repo/', repo + '/'], check=True)
        r = subprocess.run(['git', '-C', repo, 'apply', os.path.join(d, 'patch.diff')], capture_output=True, text=True)
        if r.returncode != 0:
            print(name, 'PATCH DOES NOT APPLY', r.stderr[:200])
            continue
        note = ''
        p = None
        if '--verus-first' in sys.argv:
            # the Verus units take seconds: if they already report the violation, the Kani part is not run for this seed
            p = subprocess.run([os.path.join(VERIF, 'check'), prop, '--tier', tier, '--repo', repo], capture_output=True, text=True,
                               env=dict(os.environ, VERIF_SKIP_KANI='1'))
            if p.returncode == 1:
                note = ' (Verus units only: VERIF_SKIP_KANI=1; the Kani harnesses were not run for this seed)'
            else:
                p = None
        if p is None:
            if '--verus-only' in sys.argv:
                print('== %s (%s): not decided by the Verus units alone' % (name, prop))
                continue
            p = subprocess.run([os.path.join(VERIF, 'check'), prop, '--tier', tier, '--repo', repo], capture_output=True, text=True)
        lines = [l for l in p.stdout.split('\n') if l.startswith(('FAILED-OBLIGATION', 'VIOLATION', 'UNDECIDED', 'OK'))]
        print('== %s (%s, %s): exit %d' % (name, prop, tier, p.returncode))
        for l in lines[:8]:
            print('   ', l[:260])
        with open(os.path.join(d, 'result_%s.txt' % tier), 'w') as f:
            f.write('./check %s --tier %s on /repo + patch.diff%s: exit %d\n' % (prop, tier, note, p.returncode) + '\n'.join(lines) + '\n')
    finally:
        shutil.rmtree(scratch, ignore_errors=True)
