"""Small Rust-aware scanner: enough lexical structure to locate items, match braces and
find loop heads without being confused by comments, strings, chars and lifetimes.

Nothing here interprets Rust; it only finds byte ranges in the *real* source text so that the
text can be copied verbatim into a verifier input (see DESIGN.md section 3.1).
"""
import re


class ScanError(Exception):
    pass


def code_mask(text):
    """mask[i] == 'c' for code, 'x' for comment, 's' for string/char literal contents."""
    n = len(text)
    mask = ['c'] * n
    i = 0
    while i < n:
        ch = text[i]
        if ch == '/' and i + 1 < n and text[i + 1] == '/':
            j = text.find('\n', i)
            if j < 0:
                j = n
            for k in range(i, j):
                mask[k] = 'x'
            i = j
        elif ch == '/' and i + 1 < n and text[i + 1] == '*':
            depth = 1
            j = i + 2
            while j < n and depth > 0:
                if text.startswith('/*', j):
                    depth += 1
                    j += 2
                elif text.startswith('*/', j):
                    depth -= 1
                    j += 2
                else:
                    j += 1
            for k in range(i, j):
                mask[k] = 'x'
            i = j
        elif ch == '"' or (ch == 'r' and re.match(r'r#*"', text[i:i + 8]) and (i == 0 or not (text[i - 1].isalnum() or text[i - 1] == '_'))) \
                or (ch == 'b' and i + 1 < n and text[i + 1] == '"' and (i == 0 or not (text[i - 1].isalnum() or text[i - 1] == '_'))):
            # string literal (plain, raw or byte)
            j = i
            if text[j] == 'b':
                j += 1
            if text[j] == 'r':
                m = re.match(r'r(#*)"', text[j:])
                hashes = m.group(1)
                j += len(m.group(0))
                end = text.find('"' + hashes, j)
                if end < 0:
                    raise ScanError('unterminated raw string')
                end += 1 + len(hashes)
            else:
                j += 1
                while j < n and text[j] != '"':
                    if text[j] == '\\':
                        j += 1
                    j += 1
                end = j + 1
            for k in range(i, min(end, n)):
                mask[k] = 's'
            i = end
        elif ch == "'":
            # char literal or lifetime
            m = re.match(r"'(\\.[^']*|[^'\\])'", text[i:i + 12])
            if m:
                for k in range(i, i + len(m.group(0))):
                    mask[k] = 's'
                i += len(m.group(0))
            else:
                i += 1  # lifetime / loop label
        else:
            i += 1
    return mask


class Src:
    def __init__(self, text, name='<src>'):
        self.text = text
        self.name = name
        self.mask = code_mask(text)

    def is_code(self, i):
        return self.mask[i] == 'c'

    def find_code(self, pat, lo=0, hi=None, all=False):
        """regex search restricted to matches that start in code."""
        hi = len(self.text) if hi is None else hi
        out = []
        for m in re.finditer(pat, self.text[lo:hi]):
            s = lo + m.start()
            if self.mask[s] == 'c':
                if not all:
                    return (s, lo + m.end(), m)
                out.append((s, lo + m.end(), m))
        return out if all else None

    def match_close(self, i):
        """text[i] is one of ([{ in code; return index of its matching closer."""
        opener = self.text[i]
        closer = {'(': ')', '[': ']', '{': '}'}[opener]
        depth = 0
        j = i
        n = len(self.text)
        while j < n:
            if self.mask[j] == 'c':
                c = self.text[j]
                if c == opener:
                    depth += 1
                elif c == closer:
                    depth -= 1
                    if depth == 0:
                        return j
            j += 1
        raise ScanError('%s: unbalanced %s at %d' % (self.name, opener, i))

    def next_code_char(self, chars, lo, hi=None, depth0=True):
        """first index >= lo of a code char in `chars` at ()[] nesting depth 0."""
        hi = len(self.text) if hi is None else hi
        d = 0
        j = lo
        while j < hi:
            if self.mask[j] == 'c':
                c = self.text[j]
                if c in chars and (d == 0 or not depth0):
                    return j
                if c in '([':
                    d += 1
                elif c in ')]':
                    d -= 1
            j += 1
        return -1

    def line_of(self, i):
        return self.text.count('\n', 0, i) + 1


def _norm(s):
    return re.sub(r'\s+', ' ', s).strip()


def locate(src, path, lo=0, hi=None):
    """Locate an item. `path` is a list of segments, outermost first. Segment forms:
       'impl <header text>'   impl block whose header (between `impl` and `{`), whitespace-normalised,
                              equals the given text
       'fn name' 'struct Name' 'enum Name' 'const NAME' 'mod name'
    Returns (start, end) byte range of the innermost item including its qualifiers
    (pub, const, unsafe) but excluding attributes and doc comments, end exclusive.
    """
    hi = len(src.text) if hi is None else hi
    seg = path[0]
    kind, _, rest = seg.partition(' ')
    if seg.startswith('impl'):
        kind, rest = 'impl', seg[4:].strip()
    found = []
    if kind == 'impl':
        for (s, e, m) in src.find_code(r'\bimpl\b', lo, hi, all=True):
            b = src.next_code_char('{', e, hi)
            if b < 0:
                continue
            header = _norm(src.text[e:b])
            if header == _norm(rest):
                found.append((s, src.match_close(b) + 1, b))
    elif kind in ('fn', 'struct', 'enum', 'mod', 'trait'):
        for (s, e, m) in src.find_code(r'\b%s\s+%s\b' % (kind, re.escape(rest)), lo, hi, all=True):
            b = src.next_code_char('{;', e, hi)
            if b < 0:
                continue
            if src.text[b] == ';':
                found.append((s, b + 1, -1))
            else:
                found.append((s, src.match_close(b) + 1, b))
    elif kind == 'const' or kind == 'static':
        for (s, e, m) in src.find_code(r'\b%s\s+%s\s*:' % (kind, re.escape(rest)), lo, hi, all=True):
            # a const item ends at the first ';' at brace depth 0
            j = e
            d = 0
            while j < hi:
                if src.mask[j] == 'c':
                    c = src.text[j]
                    if c in '{([':
                        d += 1
                    elif c in '})]':
                        d -= 1
                    elif c == ';' and d == 0:
                        break
                j += 1
            found.append((s, j + 1, -1))
    else:
        raise ScanError('bad path segment %r' % seg)
    if len(found) != 1:
        raise ScanError('%s: item %r found %d times (expected exactly once)' % (src.name, seg, len(found)))
    s, e, b = found[0]
    if len(path) > 1:
        if b < 0:
            raise ScanError('%s: %r has no body' % (src.name, seg))
        return locate(src, path[1:], b + 1, e - 1)
    # extend start backwards over qualifiers on the same logical item
    k = s
    while True:
        m = re.search(r'(pub(\s*\([^)]*\))?|const|unsafe|async)\s*$', src.text[lo:k])
        if not m:
            break
        k = lo + m.start()
    return (k, e)


LOOP_RE = r"(?:'[A-Za-z_][A-Za-z0-9_]*\s*:\s*)?\b(loop|while|for)\b"


def loops(src, lo, hi):
    """loop heads in [lo,hi) in textual order: list of (kw_start, body_open_brace)."""
    out = []
    for (s, e, m) in src.find_code(LOOP_RE, lo, hi, all=True):
        kw = m.group(1)
        # `for<'a>` (HRTB) and `impl X for Y` do not occur in bodies we handle; guard anyway
        if kw == 'for' and re.match(r'\s*<', src.text[e:e + 4]):
            continue
        b = src.next_code_char('{', e, hi)
        if b < 0:
            raise ScanError('loop without body')
        out.append((s, b))
    return out
