#!/bin/bash
# confirm_seed.sh <worktree> <seed-dir-name> : re-check a sub-agent's seeded change myself
# (suite passes with the change; demo fails with it, passes without it) and store it under seeded/.
set -u
WT=$1; NAME=$2
OUT=/verif/seeded/$NAME
mkdir -p $OUT
export CARGO_TARGET_DIR=$WT/target CARGO_NET_OFFLINE=true
cd $WT
git diff -- src > $OUT/patch.diff
cp $WT/demo_test.rs $OUT/demo_test.rs 2>/dev/null
rm -f tests/zz_demo_seed.rs
suite=$(cargo test --offline --workspace 2>&1 | grep -E "^test result|FAILED|^error" | awk '/FAILED|error/{f=1} /test result: ok/{p+=$4} END{print (f?"FAIL":"ok"), p}')
cp $OUT/demo_test.rs tests/zz_demo_seed.rs
with=$(cargo test --offline --test zz_demo_seed 2>&1 | grep -E "^test result" | head -1)
# (git stash is shared between worktrees of one repository: reverse-apply the patch instead)
git apply -R $OUT/patch.diff
without=$(cargo test --offline --test zz_demo_seed 2>&1 | grep -E "^test result" | head -1)
git apply $OUT/patch.diff
rm -f tests/zz_demo_seed.rs
echo "suite_with_patch: $suite"
echo "demo_with_patch: $with"
echo "demo_without_patch: $without"
cat > $OUT/confirm.txt <<EOT
suite_with_patch: $suite
demo_with_patch: $with
demo_without_patch: $without
EOT
