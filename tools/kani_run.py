"""Build the scratch copy of the real crate with the injected Kani harness modules, run harnesses,
parse results.  Nothing in /repo is modified."""
import glob
import json
import os
import re
import shutil
import subprocess
import sys
import time

HERE = os.path.dirname(os.path.abspath(__file__))
VERIF = os.path.dirname(HERE)
sys.path.insert(0, HERE)
import kani_gen  # noqa: E402

OCI = 'orx-concurrent-iter-1.30.0'


def registry_src():
    c = glob.glob(os.path.expanduser('~/.cargo/registry/src/*/' + OCI))
    if not c:
        raise RuntimeError('registry source of %s not found' % OCI)
    return c[0]


def prepare_scratch(repo, scratch):
    """returns (crate_dir, notes). Copies the working tree, patches the dependency visibility
    (one keyword), injects toolkit and harness modules."""
    os.makedirs(scratch, exist_ok=True)
    crate = os.path.join(scratch, 'repo')
    subprocess.run(['rsync', '-a', '--exclude', 'target', '--exclude', '.git', repo.rstrip('/') + '/', crate + '/'], check=True)
    oci = os.path.join(scratch, 'oci')
    shutil.copytree(registry_src(), oci)
    p = os.path.join(oci, 'src/iter/mod.rs')
    with open(p, 'rb') as f:
        s = f.read()
    if len(re.findall(rb'(?m)^mod buffered;', s)) != 1:
        raise RuntimeError('dependency patch anchor `mod buffered;` not found exactly once')
    s2 = re.sub(rb'(?m)^mod buffered;', b'pub mod buffered;', s, count=1)
    with open(p, 'wb') as f:
        f.write(s2)
    # the patch must be the only difference to the registry copy
    d = subprocess.run(['diff', '-r', registry_src(), oci], capture_output=True, text=True).stdout
    difflines = [l.rstrip('\r') for l in d.split('\n') if l.startswith('<') or l.startswith('>')]
    if difflines != ['< mod buffered;', '> pub mod buffered;']:
        raise RuntimeError('dependency copy differs from the registry in more than the visibility keyword: %r' % difflines[:6])
    with open(os.path.join(crate, 'Cargo.toml'), 'a') as f:
        f.write('\n[patch.crates-io]\norx-concurrent-iter = { path = "../oci" }\n')
    os.makedirs(os.path.join(crate, '.cargo'), exist_ok=True)
    with open(os.path.join(crate, '.cargo/config.toml'), 'w') as f:
        f.write('[net]\noffline = true\n')
    # toolkit
    shutil.copytree(os.path.join(VERIF, 'kani/verif_kani'), os.path.join(crate, 'src/core/verif_kani'))
    with open(os.path.join(crate, 'src/core/mod.rs'), 'a') as f:
        f.write('\n#[cfg(kani)]\npub(crate) mod verif_kani;\n')
    # harness modules
    mods = kani_gen.generate_all()
    for rel, text in mods.items():
        if rel.startswith('+'):
            # a new file of the toolkit: create it and declare the module
            path = os.path.join(crate, rel[1:])
            with open(path, 'w') as f:
                f.write(text)
            with open(os.path.join(crate, 'src/core/verif_kani/mod.rs'), 'a') as f:
                f.write('\npub mod %s;\n' % os.path.basename(path)[:-3])
            continue
        path = os.path.join(crate, rel)
        if not os.path.exists(path):
            raise RuntimeError('anchor lost: %s does not exist' % rel)
        with open(path, 'a') as f:
            f.write(text)
    return crate


def _limit_mem():
    # cap the address space of every process of the Kani run: a CBMC instance that explodes (> 14 GB)
    # must die as "out of memory" (=> undecided) instead of taking the machine down
    import resource
    gb = int(os.environ.get('VERIF_CBMC_GB', '0'))
    if gb:  # off by default: CBMC under RLIMIT_AS fails in ways kani-driver cannot parse (observed with 14 GB)
        resource.setrlimit(resource.RLIMIT_AS, (gb << 30, gb << 30))


RES_RE = re.compile(r'\*\* (\d+) of (\d+) failed')
COV_RE = re.compile(r'\*\* (\d+) of (\d+) cover properties satisfied')


def _watchdog(root, stop, limit_kb, killed):
    """kill CBMC processes of this run whose resident set exceeds the limit: a harness that explodes (one was seen
    at 57 GB) must end as `undecided` instead of taking down the machine and the other harnesses"""
    while not stop.wait(5):
        try:
            out = subprocess.run(['ps', '-eo', 'pid,rss,args'], capture_output=True, text=True).stdout
        except Exception:
            continue
        for line in out.split('\n')[1:]:
            parts = line.split(None, 2)
            if len(parts) < 3 or 'cbmc' not in parts[2] or root not in parts[2]:
                continue
            try:
                pid, rss = int(parts[0]), int(parts[1])
            except ValueError:
                continue
            if rss > limit_kb:
                m = re.search(r'(k_[a-z0-9_]+)\.out', parts[2])
                killed.append(m.group(1) if m else parts[2][-80:])
                try:
                    os.kill(pid, 9)
                except OSError:
                    pass


def run_harnesses(crate, names, jobs=16, harness_timeout='10m', overall_timeout=3600, extra=()):
    """returns dict(results=name -> result, ..). If the Kani driver dies before it has started every harness (observed
    once: exit 101 after a CBMC process was killed for memory), the harnesses without any output are started again,
    once, within the remaining budget."""
    out = _run_harnesses_once(crate, names, jobs, harness_timeout, overall_timeout, extra)
    missing = [n for n in names if out['results'][n]['status'] == 'missing']
    left = overall_timeout - out['wall_s']
    if missing and len(missing) < len(names) and out['rc'] not in (0, -9) and left > 60 and not out['compile_error']:
        out2 = _run_harnesses_once(crate, missing, jobs, harness_timeout, int(left), extra)
        out['results'].update(out2['results'])
        out['wall_s'] += out2['wall_s']
        out['retried'] = missing
    return out


def _run_harnesses_once(crate, names, jobs=16, harness_timeout='10m', overall_timeout=3600, extra=()):
    """returns dict name -> result"""
    if not names:
        return {}
    import threading
    stop = threading.Event()
    killed = []
    limit_kb = int(os.environ.get('VERIF_CBMC_RSS_GB', '16')) << 20
    wd = threading.Thread(target=_watchdog, args=(os.path.realpath(os.path.join(crate, '..')), stop, limit_kb, killed), daemon=True)
    wd.start()
    cmd = ['cargo', 'kani', '-Z', 'stubbing', '-Z', 'unstable-options', '--output-format=terse', '--exact',
           '-j', str(jobs), '--harness-timeout', harness_timeout, '--output-into-files'] + list(extra)
    for n in names:
        cmd += ['--harness', kani_gen.HARNESSES[n]['path'] if n in kani_gen.HARNESSES else n]
    env = dict(os.environ, CARGO_NET_OFFLINE='true')
    t0 = time.time()
    log = os.path.join(crate, '..', 'kani.%d.log' % int(t0 * 1000))
    with open(log, 'w') as lf:
        try:
            p = subprocess.run(cmd, cwd=crate, stdout=lf, stderr=subprocess.STDOUT, env=env, timeout=overall_timeout, preexec_fn=_limit_mem)
            rc = p.returncode
        except subprocess.TimeoutExpired:
            rc = -9
            # kill only the CBMC processes of THIS run (their command line mentions this scratch directory)
            subprocess.run(['pkill', '-f', os.path.realpath(os.path.join(crate, '..'))])
    stop.set()
    wall = time.time() - t0
    text = open(log, errors='replace').read()
    results = {}
    compile_error = None
    if 'error: could not compile' in text or re.search(r'^error(\[E\d+\])?:', text, re.M) and 'Checking harness' not in text:
        m = re.search(r'^error.*(?:\n.*){0,12}', text, re.M)
        compile_error = m.group(0) if m else 'compile error'
    # per-harness blocks in the log (terse, -j): "Thread k: Checking harness <path>..." and result blocks
    thread_h = {}
    cur_thread = None
    blocks = {}
    for line in text.split('\n'):
        m = re.match(r'^Thread (\d+): Checking harness (\S+?)\.\.\.', line)
        if m:
            thread_h[m.group(1)] = m.group(2)
            cur_thread = None
            continue
        m = re.match(r'^Thread (\d+):\s*$', line)
        if m:
            cur_thread = m.group(1)
            h = thread_h.get(cur_thread)
            blocks.setdefault(h, [])
            continue
        m = re.match(r'^Checking harness (\S+?)\.\.\.', line)
        if m:  # -j 1 format
            thread_h['0'] = m.group(1)
            cur_thread = '0'
            blocks.setdefault(m.group(1), [])
            continue
        if cur_thread is not None:
            blocks[thread_h.get(cur_thread)].append(line)
    for n in names:
        path = kani_gen.HARNESSES[n]['path'] if n in kani_gen.HARNESSES else n
        r = dict(name=n, path=path, status='missing', checks=0, failed=0, covers_sat=0, covers_total=0, time_s=0.0, failed_checks=[], raw='')
        b = blocks.get(path)
        if compile_error:
            r['status'] = 'compile_error'
            r['raw'] = compile_error[:2000]
        elif b is not None:
            body = '\n'.join(b)
            r['raw'] = body[-3000:]
            m = RES_RE.search(body)
            if m:
                r['failed'] = int(m.group(1))
                r['checks'] = int(m.group(2))
            m = COV_RE.search(body)
            if m:
                r['covers_sat'] = int(m.group(1))
                r['covers_total'] = int(m.group(2))
            m = re.search(r'Verification Time: ([\d.]+)s', body)
            if m:
                r['time_s'] = float(m.group(1))
            if 'out of memory' in body or any(n.endswith(k) or k in n for k in killed):
                r['status'] = 'oom'
            elif 'timed out' in body.lower() or 'TIMEOUT' in body:
                r['status'] = 'timeout'
            elif 'VERIFICATION:- SUCCESSFUL' in body:
                r['status'] = 'ok'
            elif 'VERIFICATION:- FAILED' in body:
                if 'CBMC failed' in body or 'unsupported' in body.lower() and r['checks'] == 0:
                    r['status'] = 'tool_error'
                else:
                    r['failed_checks'] = re.findall(r'Failed Checks: (.*)', body)
                    real = [c for c in r['failed_checks'] if 'unwinding assertion' not in c]
                    # an insufficient unwind bound is a limit of the harness, never a violation
                    if real:
                        r['status'] = 'failed'
                    elif r['failed_checks']:
                        r['status'] = 'unwind_bound'
                    else:
                        r['status'] = 'tool_error'  # FAILED without a failed check: CBMC was killed / undetermined
            else:
                r['status'] = 'unknown'
        results[n] = r
    return dict(results=results, wall_s=wall, log=log, rc=rc, cmd=' '.join(cmd[:12]) + ' --harness <...>', compile_error=compile_error)


if __name__ == '__main__':
    import argparse
    import tempfile
    ap = argparse.ArgumentParser()
    ap.add_argument('pattern')
    ap.add_argument('--repo', default='/repo')
    ap.add_argument('--tier', default='quick')
    ap.add_argument('--keep', action='store_true')
    ap.add_argument('-j', type=int, default=16)
    a = ap.parse_args()
    d = tempfile.mkdtemp(prefix='orxverif.k.', dir='/var/tmp')
    crate = prepare_scratch(a.repo, d)
    names = [n for n, h in sorted(kani_gen.HARNESSES.items()) if re.search(a.pattern, n) and (a.tier == 'thorough' or h['tier'] == 'quick')]
    print(len(names), 'harnesses', d)
    out = run_harnesses(crate, names, jobs=a.j)
    for n, r in sorted(out['results'].items()):
        print('%-60s %-10s checks=%d failed=%d covers=%d/%d t=%.0fs %s' % (n, r['status'], r['checks'], r['failed'], r['covers_sat'], r['covers_total'], r['time_s'], '; '.join(r['failed_checks'])[:200]))
    print('wall %.0fs rc=%s %s' % (out['wall_s'], out['rc'], out['compile_error'] or ''))
    if not a.keep:
        shutil.rmtree(d)


# ------------------------------------------------------------------------------------------
# per-property driver

PROP_RE = re.compile(r'^(C\d\d(?:,C\d\d)*):')


def select(prop, cfg, tier):
    """harnesses that serve `prop` in this tier. The quick selection is always part of the thorough one;
    quick harnesses are `required` (an undecided one makes the check exit 2), thorough-only ones are
    optional (a resource limit there only degrades the reported coverage)."""
    kani_gen.generate_all()
    sel = cfg.get('kani_select') or {}

    def pick(t):
        out = []
        for n, h in sorted(kani_gen.HARNESSES.items()):
            if prop not in h['props']:
                continue
            if t == 'quick' and h['tier'] != 'quick':
                continue
            if sel.get(t) and not re.search(sel[t], n):
                continue
            out.append(n)
        return out
    quick = pick('quick')
    if tier == 'quick':
        return quick
    # thorough-only harnesses are scheduled only if tools/validate_harnesses.py has seen them pass (non-vacuously) on the
    # unchanged tree: a harness that was never run to completion must not be able to raise an alarm (or waste the budget)
    ok = validated()
    rest = [n for n in pick('thorough') if n not in quick and n in ok]
    return quick + rest


_VALIDATED = None


def validated():
    global _VALIDATED
    if _VALIDATED is None:
        path = os.path.join(VERIF, 'kani', 'validated.json')
        try:
            with open(path) as f:
                _VALIDATED = set(json.load(f)['ok'])
        except (OSError, ValueError, KeyError):
            _VALIDATED = set()
    return _VALIDATED


def required(prop, cfg):
    return set(select(prop, cfg, 'quick'))


def run_property(prop, cfg, tier, repo, scratch, seed):
    """returns dict(coverage=..., undecided=[...], violations=[...])"""
    undecided, violations = [], []
    cov = dict(complete_obligations=0, complete_discharged=0, bounded_checks=0, bounded_passed=0, bounds=[], detail={},
               harnesses_run=0, harnesses_nonvacuous=0, solver_s=0.0, cmds=[], samples=[])
    try:
        crate = prepare_scratch(repo, os.path.join(scratch, 'kani'))
    except Exception as e:
        return dict(coverage=cov, undecided=['kani scratch build: %s' % e], violations=[])
    names = select(prop, cfg, tier)
    req = required(prop, cfg)
    optional_undecided = []
    if seed:
        # the seed only rotates the order in which shapes are started; every shape of the tier is run
        k = seed % max(1, len(names))
        names = names[k:] + names[:k]
    jobs = int(os.environ.get('VERIF_KANI_JOBS', '10'))
    # the required (quick) harnesses are started first; a thorough run has an overall budget after which the
    # harnesses not yet finished are reported as not decided (optional ones only degrade coverage)
    budget = int(os.environ.get('VERIF_KANI_BUDGET_S', '3600' if tier == 'thorough' else '2700'))
    out = run_harnesses(crate, names, jobs=jobs, harness_timeout=cfg.get('kani_timeout', '20m' if tier == 'thorough' else '12m'), overall_timeout=budget)
    cov['cmds'].append(out['cmd'])
    if out['compile_error']:
        undecided.append('kani: harness crate does not compile on this tree: %s' % out['compile_error'][:400].replace('\n', ' '))
    bounds = set()
    for n in names:
        r = out['results'][n]
        h = kani_gen.HARNESSES[n]
        cov['harnesses_run'] += 1
        cov['solver_s'] += r['time_s']
        d = dict(status=r['status'], checks=r['checks'], failed=r['failed'], covers='%d/%d' % (r['covers_sat'], r['covers_total']),
                 time_s=r['time_s'], bounded=h['bounded'], bound=h['bound'])
        cov['detail'][n] = d
        bounds.add(h['bound'])
        if r['status'] == 'ok':
            exp = h.get('covers_expected')
            cmin = h.get('covers_min')
            if r['checks'] == 0 or (exp is not None and r['covers_sat'] < exp) or (exp is None and cmin is None and r['covers_sat'] < r['covers_total']) \
                    or (cmin is not None and r['covers_sat'] < cmin):
                (undecided if n in req else optional_undecided).append('kani %s: vacuity guard: %d checks, covers %d/%d (expected %s)' % (n, r['checks'], r['covers_sat'], r['covers_total'], exp))
                continue
            cov['harnesses_nonvacuous'] += 1
            if h['bounded']:
                cov['bounded_checks'] += r['checks']
                cov['bounded_passed'] += r['checks'] - r['failed']
            else:
                cov['complete_obligations'] += 1
                cov['complete_discharged'] += 1
            if len(cov['samples']) < 8:
                cov['samples'].append(dict(harness=n, backend='kani/cbmc', shape=h.get('shape'), checks=r['checks'], bounded=h['bounded']))
        elif r['status'] == 'failed':
            mine, other = [], []
            for c in r['failed_checks']:
                m = PROP_RE.match(c.strip().strip('"'))
                if m:
                    (mine if prop in m.group(1).split(',') else other).append(c.strip())
                else:
                    mine.append(c.strip())
            if h['bounded']:
                cov['bounded_checks'] += r['checks']
                cov['bounded_passed'] += r['checks'] - r['failed']
            else:
                cov['complete_obligations'] += 1
            if mine:
                violations.append(dict(obligation='%s.K.%s' % (prop, n), backend='kani/cbmc', message='; '.join(mine)[:600],
                                       detail=dict(harness=h['path'], shape=h.get('shape'), failed_checks=r['failed_checks'], output=r['raw'][-1500:]),
                                       key='K.%s' % n, harness=n, complete=not h['bounded']))
        else:
            (undecided if n in req else optional_undecided).append('kani %s: %s' % (n, r['status']))
    cov['bounds'] = sorted(bounds)
    cov['optional_undecided'] = optional_undecided
    cov['solver_s'] = round(cov['solver_s'], 1)
    # counterexamples for violations: concrete playback of the failing harness (values of kani::any())
    skip = set(cfg.get('_known_keys', []))
    for v in [x for x in violations if x.get('key') not in skip][:2]:
        try:
            cex = concrete_playback(crate, kani_gen.HARNESSES[v['harness']]['path'])
            if cex:
                v['counterexample'] = cex
                v['replay_test'] = dict(harness=kani_gen.HARNESSES[v['harness']]['path'], concrete_vals=cex)
        except Exception as e:  # pragma: no cover
            v['detail']['playback_error'] = repr(e)
    return dict(coverage=cov, undecided=undecided, violations=violations)


def concrete_playback(crate, path, timeout=900):
    cmd = ['cargo', 'kani', '-Z', 'stubbing', '-Z', 'concrete-playback', '--concrete-playback=print', '--exact', '--harness', path,
           '--output-format=terse']
    env = dict(os.environ, CARGO_NET_OFFLINE='true')
    try:
        p = subprocess.run(cmd, cwd=crate, capture_output=True, text=True, env=env, timeout=timeout)
    except subprocess.TimeoutExpired:
        return None
    m = re.search(r'Concrete playback unit test.*?```(.*?)```', p.stdout, re.S)
    if not m:
        return None
    vals = re.findall(r'vec!\[([\d, ]*)\],', m.group(1))
    check = re.search(r'Check for `\w+`: "(.*?)"', m.group(1))
    return dict(kani_any_values=[[int(x) for x in v.split(',') if x.strip()] for v in vals], failing_check=check.group(1) if check else None,
                note='values returned by successive kani::any() calls of the harness (symbolic data, closure tables); replay: cargo kani playback test printed by Kani',
                unit_test=m.group(1).strip()[:6000])


def run_replay(r, repo):
    print('replay: re-run the harness %s on %s with concrete playback' % (r['replay']['harness'], repo))
    import tempfile
    d = tempfile.mkdtemp(prefix='orxverif.replay.', dir='/var/tmp')
    try:
        crate = prepare_scratch(repo, d)
        out = run_harnesses(crate, [r['replay']['harness']], jobs=1)
        res = list(out['results'].values())[0]
        print(res['status'], res['failed_checks'])
        return 1 if res['status'] == 'failed' else 0
    finally:
        shutil.rmtree(d, ignore_errors=True)
