#!/usr/bin/env python3
"""regenerate MANIFEST.json from tools/props.py"""
import json, os, sys
HERE = os.path.dirname(os.path.abspath(__file__))
sys.path.insert(0, HERE)
import props as P
ALL = ['C%02d' % i for i in range(1, 17)]
checks = []
for pid, cfg in sorted(P.PROPS.items()):
    checks.append(dict(property_id=pid,
        quick_cmd='./check %s --tier quick' % pid,
        thorough_cmd='./check %s --tier thorough' % pid,
        evidence_file='/verif/evidence/%s.json' % pid,
        replay_cmd_template='./check %s --replay {path}' % pid,
        engine='contracts',
        level_claimed=dict(category=cfg['level'], text=cfg['explanation'], design_ref='DESIGN.md section 4 (%s)' % pid),
        level_note='; '.join(cfg['trusted_base']),
        technique=cfg.get('technique', 'contract-based deductive verification: Verus on the real functions extracted each run + Kani function harnesses on the real crate')))
na = [dict(property_id=k, reason=v) for k, v in sorted(P.NOT_APPLICABLE.items())]
for pid in ALL:
    if pid not in P.PROPS and pid not in P.NOT_APPLICABLE:
        na.append(dict(property_id=pid, reason='check not built yet (work in progress); not claimed'))
m = dict(version=1,
    setup_cmd=P.SETUP_CMD,
    hooks=dict(guard=P.HOOK_GUARD, enable=P.HOOK_ENABLE,
               baseline_off_cmd='cd /repo && cargo test --workspace --no-fail-fast --offline', source_commits=P.HOOK_COMMITS, add_only=True),
    engines=[dict(name='contracts', path='/verif/check', serves_properties=sorted(P.PROPS.keys()),
                  kind_free_text='Verus 0.2026.09.13 on functions extracted from /repo on every run + Kani 0.68 harnesses injected into a scratch copy of the real crate')],
    checks=checks, notes='see DESIGN.md', not_applicable=na)
json.dump(m, open(os.path.join(os.path.dirname(HERE), 'MANIFEST.json'), 'w'), indent=1)
print('MANIFEST: %d checks, %d not_applicable' % (len(checks), len(na)))
