"""Generate a Verus input file from a contract template (contracts/<unit>.vspec) and the
current text of /repo.  The executable text of every function under contract is copied
verbatim from the working tree on every run; this module only
  * drops: doc comments, `#[inline(always)]`, (optionally) named nested fns that are emitted
    separately ("hoist"),
  * adds: the contract clauses of the template (requires/ensures/invariant/decreases, ghost
    statements at anchored places, attributes),
  * applies the named, anchored rewrite rules RW1..RWn (DESIGN.md 3.2), each of which must
    match an exact number of times, otherwise GenError (=> exit 2 "anchor lost", never an alarm).
"""
import hashlib
import json
import os
import re
import sys

sys.path.insert(0, os.path.dirname(os.path.abspath(__file__)))
from rsscan import Src, ScanError, locate, loops  # noqa: E402


class GenError(Exception):
    pass


# --------------------------------------------------------------------------------------------
# rewrite rules: name -> (description, function(text) -> (new_text, n_applied), expected count or None)

def _rw_enumerate(text):
    # RW6: `for (A, B) in X.iter().enumerate() {`  ->  `for A in 0..X.len() { let B = &X[A];`
    pat = re.compile(r'for \((\w+), (\w+)\) in (\w+)\.iter\(\)\.enumerate\(\) \{')
    return pat.subn(lambda m: 'for %s in 0..%s.len() { let %s = &%s[%s];' % (m.group(1), m.group(3), m.group(2), m.group(3), m.group(1)), text)


def _rw_scope(text):
    # RW1: `std::thread::scope(|s| {` ... matching `})`  ->  `{ let mut s = Scope::new();` ... `}`
    m = re.search(r'std::thread::scope\(\|s\| \{', text)
    if not m:
        return text, 0
    src = Src(text)
    ob = m.end() - 1
    cb = src.match_close(ob)
    rest = text[cb + 1:]
    if not rest.startswith(')'):
        raise GenError('RW1: closing `})` of thread::scope not found')
    new = text[:m.start()] + '{ let mut s = Scope::new();' + text[ob + 1:cb] + '}' + rest[1:]
    # note: a trailing `;` of the original statement is kept as is
    return new, 1


def _rw_spawn(text):
    # RW2: `s.spawn(move || thread_task(chunk))` -> `s.spawn(thread_task, chunk)`
    return re.subn(r's\.spawn\(move \|\| thread_task\(chunk\)\)', 's.spawn(thread_task, chunk)', text)


def _rw_join(text):
    # RW3: `x.join().expect("...")` -> `x.join()`
    return re.subn(r'x\.join\(\)\.expect\("[^"]*"\)', 'x.join()', text)


def _rw_join_reduce(text):
    # RW5: threads.into_iter().map(|x| x.join().expect(..)).reduce(reduce) -> join_all_reduce(threads, reduce)
    return re.subn(r'threads\s*\.into_iter\(\)\s*\.map\(\|x\| x\.join\(\)\.expect\("[^"]*"\)\)\s*\.reduce\(reduce\)',
                   'join_all_reduce(threads, reduce)', text)


def _rw_exec_const(text):
    # RW7: `const N: T = E;` -> `exec const N: T = E;`  (Verus consts are dual mode; E calls exec code)
    return re.subn(r'^(\s*)(pub(\([^)]*\))?\s+)?const ', r'\1exec const ', text, count=1)


def _rw_debug_assert_fmt(text):
    # RW9: `debug_assert!(false, "<fmt>", e)` -> `debug_assert!(false)`: Verus cannot ingest format
    # arguments of type io::Error; the asserted condition is kept (it is the proof obligation).
    return re.subn(r'debug_assert!\(false, "[^"]*", e\);', 'debug_assert!(false);', text)


def _rw_vec_macro(text):
    # RW10: `vec![]` with inferred element type -> `Vec::new()` (Verus' vec! macro needs the type)
    return re.subn(r'vec!\[\]', 'Vec::new()', text)


def _rw_name_loop_var(text):
    # RW11: `for _ in A..B {` -> `for _i in A..B {` (names the anonymous counter so invariants can mention it)
    return re.subn(r'\bfor _ in ', 'for _i in ', text)


def _rw_name_iter(text):
    # RW12: `for x in handles {` -> `for x in it: handles {` (names Verus' ghost iterator)
    return re.subn(r'\bfor x in handles \{', 'for x in it: handles {', text)


def _rw_name_param(text):
    # RW13: `fn f<T>(_: &T)` -> `fn f<T>(_x: &T)` (Verus needs named parameters)
    return re.subn(r'\(_: ', '(_x: ', text)


def _rw_name_iter_mut(text):
    # RW14: `for vec in vectors.iter_mut() {` -> `for vec in it: vectors.iter_mut() {`
    return re.subn(r'\bfor vec in vectors\.iter_mut\(\) \{', 'for vec in it: vectors.iter_mut() {', text)


def _rw_values_enumerate(text):
    # RW15: `for (C, V) in X.values.enumerate() { BODY }` ->
    #       `let mut C: usize = 0; let mut vals__ = X.values; while let Some(V) = vals__.next() { BODY C += 1; }`
    # (std's Enumerate over an ExactSizeIterator written out: Verus has no Enumerate)
    m = re.search(r'for \((\w+), (\w+)\) in (\w+)\.values\.enumerate\(\) \{', text)
    if not m:
        return text, 0
    src = Src(text)
    ob = m.end() - 1
    cb = src.match_close(ob)
    head = 'let mut %s: usize = 0; let mut vals__ = %s.values; while let Some(%s) = vals__.next() {' % (m.group(1), m.group(3), m.group(2))
    new = text[:m.start()] + head + text[ob + 1:cb] + '    %s += 1;\n                ' % m.group(1) + text[cb:]
    return new, 1


def _rw_extend_chain(text):
    # RW16: `collected.extend(F(X).into_iter().filter(filter).enumerate().map(|(i, value)| (KEY, value)));` ->
    #       `{ let mut inner__ = F(X).into_iter(); let mut i: usize = 0;
    #          while let Some(value) = inner__.next() { if filter(&value) { collected.push((KEY, value)); i += 1; } } }`
    # (std's filter / enumerate / map / extend written out; KEY is copied verbatim from the source)
    pat = re.compile(r'collected\.extend\(\s*(\w+)\(([\w.]+)\)\s*\.into_iter\(\)\s*\.filter\(filter\)\s*\.enumerate\(\)\s*'
                     r'\.map\(\|\(i, value\)\| \((\(.*?\)), value\)\),?\s*\);', re.S)
    def rep(m):
        return ('{ let mut inner__ = %s(%s).into_iter(); let mut i: usize = 0; while let Some(value) = inner__.next() { '
                'if filter(&value) { collected.push((%s, value)); i += 1; } } }' % (m.group(1), m.group(2), m.group(3)))
    return pat.subn(rep, text)


def _rw_chunk_reduce(text):
    # RW17: `let x = chunk<adaptor chain>.reduce(reduce);` -> `let x = chunk_reduce(chunk);`
    # (the adaptor chain over one chunk becomes an assumed function: Some iff an element of the chunk survives)
    return re.subn(r'let x = chunk\b[^;]*?\.reduce\(reduce\);', 'let x = chunk_reduce(chunk);', text, flags=re.S)


def _rw_values_reduce(text):
    # RW18: `iter.values()<adaptor chain>.reduce(reduce)` -> `values_reduce(iter)` (whole arm assumed, T6)
    return re.subn(r'iter\.values\(\)[^;{}]*?\.reduce\(reduce\)', 'values_reduce(iter)', text, flags=re.S)


def _rw_for_values(text):
    # RW19: `for x in iter.values() {` -> `while let Some(x) = iter.next() {` (ConIterValuesX::next is iter.next())
    return re.subn(r'for x in iter\.values\(\) \{', 'while let Some(x) = iter.next() {', text)


def _rw_chunk_count(text):
    # RW20: `chunk<adaptor chain>.count()` -> `chunk_count(chunk)` (assumed: the number of survivors of the chunk)
    return re.subn(r'\bchunk\s*\.[^;]*?\.count\(\)', 'chunk_count(chunk)', text, flags=re.S)


def _rw_values_count(text):
    # RW21: `iter.values()<adaptor chain>.count()` -> `values_count(iter)` (whole chunk-size-1 arm assumed, T6)
    return re.subn(r'iter\.values\(\)[^;{}]*?\.count\(\)', 'values_count(iter)', text, flags=re.S)


def _rw_ids_values_for_each(text):
    # RW22: `iter.ids_and_values()<chain>.for_each(<closure>);` -> `ids_values_for_each(iter);` (whole arm assumed, T6)
    return re.subn(r'iter\s*\.ids_and_values\(\)[^;]*?\.for_each\([^;]*?\);', 'ids_values_for_each(iter);', text, flags=re.S)


def _rw_values_map(text):
    # RW23: `chunk.values.map(&map)` -> `mapped(chunk.values, map)` (std Map adaptor handed to the bag)
    return re.subn(r'chunk\.values\.map\(&map\)', 'mapped(chunk.values, map)', text)


def _rw_map_filter_enumerate(text):
    # RW24: `for (i, value) in chunk.values.map(map).filter(filter).enumerate() { BODY }` ->
    #       `let mut i: usize = 0; let mut mf__ = map_filter(chunk.values, map, filter); while let Some(value) = mf__.next() { BODY i += 1; }`
    # (std's Map/Filter adaptors over the chunk become one assumed iterator that yields at most as many elements as
    #  the chunk holds, each a mapped value accepted by the filter; Enumerate is written out)
    m = re.search(r'for \((\w+), (\w+)\) in chunk\.values\.map\(map\)\.filter\(filter\)\.enumerate\(\) \{', text)
    if not m:
        return text, 0
    src = Src(text)
    ob = m.end() - 1
    cb = src.match_close(ob)
    head = 'let mut %s: usize = 0; let mut mf__ = map_filter(chunk.values, map, filter); while let Some(%s) = mf__.next() {' % (m.group(1), m.group(2))
    new = text[:m.start()] + head + text[ob + 1:cb] + '    %s += 1;\n                ' % m.group(1) + text[cb:]
    return new, 1


def _rw_extend_chunk(text):
    # RW25: `collected.extend(chunk<adaptor chain>);` -> `extend_chunk(&mut collected, chunk);`
    return re.subn(r'collected\.extend\(\s*chunk\b[^;]*?\);', 'extend_chunk(&mut collected, chunk);', text, flags=re.S)


def _rw_values_collect(text):
    # RW26: `iter.values()<adaptor chain>.collect()` -> `values_collect(iter)` (whole chunk-size-1 arm assumed, T6)
    return re.subn(r'iter\s*\.values\(\)[^;{}]*?\.collect\(\)', 'values_collect(iter)', text, flags=re.S)


def _rw_drop_closure_bounds(text):
    # RW27: drop the `M: Fn(I::Item) -> O + Send + Sync + Clone,` bound of map_into (the closure is only passed through)
    return re.subn(r'\n\s*M: Fn\(I::Item\) -> O \+ Send \+ Sync \+ Clone,', '', text)


def _rw_extend_split(text):
    # RW28: `self.extend(split);` -> `vec_extend_split(&mut self, split);` (Vec::extend over SplitVec::into_iter: assumed, T4)
    return re.subn(r'(self|this)\.extend\(split\);', r'vec_extend_split(&mut \1, split);', text)


def _rw_mut_self(text):
    # RW29: `fn f(mut self, ..) { BODY }` -> `fn f(self, ..) { let mut this = self; BODY[self := this] }`
    # (Verus does not support `mut self`; a by-value `mut self` is exactly a mutable local initialised with self)
    m = re.search(r'\(mut self,', text)
    if not m:
        return text, 0
    src = Src(text)
    fm = src.find_code(r'\bfn\b')
    ob = src.next_code_char('{', fm[1])
    head = text[:ob + 1].replace('(mut self,', '(self,', 1)
    body = re.sub(r'\bself\b', 'this', text[ob + 1:])
    return head + '\n        let mut this = self;' + body, 1


def _rw_vec_reserve(text):
    # RW30: `self.reserve(ARG);` -> `self.reserve_(ARG);` (vstd's Vec::reserve spec says nothing about capacity;
    # the stand-in states the std contract `capacity >= len + additional`; ARG is copied verbatim)
    return re.subn(r'\b(self|this)\.reserve\(([^;]*)\);', r'\1.reserve_(\2);', text)


def _rw_drop_where_bounds(text):
    # RW31: in the `where` clause of a *_filter_into method keep only `I: orx_concurrent_iter::ConcurrentIter,` --
    # the closure / IntoIterator / Fallible bounds only constrain values that are passed through unchanged
    m = re.search(r'where\s*\n(.*?)\{', text, re.S)
    if not m:
        return text, 0
    lines = m.group(1).split('\n')
    kept = [l for l in lines if 'ConcurrentIter' in l or not l.strip()]
    if len(kept) == len(lines):
        return text, 0
    return text[:m.start(1)] + '\n'.join(kept) + text[m.end(1):], 1


def _rw_ids_values_find(text):
    # RW32: `let result = iter.ids_and_values()<adaptor chain>;` (the statement before `if result.is_some()`) ->
    # `let result = ids_values_find(iter);` (chunk-size-1 arm of a find kernel: one std adaptor chain, assumed, T6)
    return re.subn(r'let result = iter\s*\.ids_and_values\(\).*?;(?=\s*if result\.is_some\(\))',
                   'let result = ids_values_find(iter);', text, flags=re.S)


def _rw_chunk_find(text):
    # RW33: `let result = chunk.values.enumerate()<adaptor chain>;` (the statement before `if result.is_some()`) ->
    # `let result = chunk_find(chunk);` (first survivor of ONE chunk with its position: assumed, T6)
    return re.subn(r'let result = chunk\s*\.values\s*\.enumerate\(\).*?;(?=\s*if result\.is_some\(\))',
                   'let result = chunk_find(chunk);', text, flags=re.S)


REWRITES = {
    'RW33': ('let result = chunk.values.enumerate()<chain>; -> let result = chunk_find(chunk); (assumption T6: first survivor of the chunk; its index arithmetic is covered by the bounded Kani task harnesses only)', _rw_chunk_find),
    'RW32': ('let result = iter.ids_and_values()<chain>; -> let result = ids_values_find(iter); (chunk-size-1 arm of a find kernel is a single std adaptor chain: assumed, T6)', _rw_ids_values_find),
    'RW31': ('where-clause bounds on closures / IntoIterator / Fallible dropped (values only passed through to the kernels)', _rw_drop_where_bounds),
    'RW30': ('self.reserve(ARG) -> self.reserve_(ARG) (extension method stating the std contract of Vec::reserve on the capacity, which the vstd spec omits: assumed, T4; ARG verbatim)', _rw_vec_reserve),
    'RW29': ('fn f(mut self, ..) -> fn f(self, ..) { let mut this = self; .. } with self renamed to this in the body (Verus has no `mut self`)', _rw_mut_self),
    'RW27': ('closure bound `M: Fn(I::Item) -> O + Send + Sync + Clone` dropped (the closure is passed through to map_col unchanged)', _rw_drop_closure_bounds),
    'RW28': ('self.extend(split) -> vec_extend_split(&mut self, split) (Vec::extend over SplitVec: assumed, T4)', _rw_extend_split),
    'RW25': ('collected.extend(chunk<chain>) -> extend_chunk(&mut collected, chunk) (assumption T6: appends the survivors of the chunk, keeps what is there)', _rw_extend_chunk),
    'RW26': ('iter.values()<chain>.collect() -> values_collect(iter) (chunk-size-1 arm of this kernel is a single std adaptor chain: assumed, T6)', _rw_values_collect),
    'RW24': ('for (i, v) in chunk.values.map(map).filter(filter).enumerate() -> explicit counter over an assumed map+filter iterator (T6)', _rw_map_filter_enumerate),
    'RW22': ('iter.ids_and_values()<chain>.for_each(..) -> ids_values_for_each(iter) (chunk-size-1 arm of map_col::task is one std adaptor chain: assumed, T6; covered by the bounded Kani harnesses)', _rw_ids_values_for_each),
    'RW23': ('chunk.values.map(&map) -> mapped(chunk.values, map) (std Map adaptor)', _rw_values_map),
    'RW20': ('chunk<chain>.count() -> chunk_count(chunk) (assumption T6: the number of survivors of the chunk)', _rw_chunk_count),
    'RW21': ('iter.values()<chain>.count() -> values_count(iter) (chunk-size-1 arm of this kernel is a single std adaptor chain: assumed, T6)', _rw_values_count),
    'RW17': ('let x = chunk<chain>.reduce(reduce) -> let x = chunk_reduce(chunk) (assumption T6: Some iff the chunk has a survivor)', _rw_chunk_reduce),
    'RW18': ('iter.values()<chain>.reduce(reduce) -> values_reduce(iter) (chunk-size-1 arm of this kernel is a single std adaptor chain: assumed, T6)', _rw_values_reduce),
    'RW19': ('for x in iter.values() -> while let Some(x) = iter.next() (the values() wrapper forwards next())', _rw_for_values),
    'RW16': ('collected.extend(f(x).into_iter().filter(filter).enumerate().map(|(i, value)| (KEY, value))) -> explicit loop with counter (assumption T6 for filter/enumerate/map/extend; KEY verbatim)', _rw_extend_chain),
    'RW15': ('for (c, v) in chunk.values.enumerate() -> explicit counter + while let Some(v) = vals__.next() (assumption T6 for Enumerate)', _rw_values_enumerate),
    'RW14': ('for vec in vectors.iter_mut() -> for vec in it: vectors.iter_mut() (names the ghost iterator; same loop)', _rw_name_iter_mut),
    'RW13': ('fn f(_: &T) -> fn f(_x: &T) (unnamed parameter named; unused either way)', _rw_name_param),
    'RW12': ('for x in handles -> for x in it: handles (Verus syntax naming the ghost iterator; same loop)', _rw_name_iter),
    'RW11': ('for _ in R -> for _i in R (anonymous loop counter named for use in invariants)', _rw_name_loop_var),
    'RW1': ('std::thread::scope(|s| { .. }) -> block with a ghost Scope (assumption T5)', _rw_scope),
    'RW2': ('s.spawn(move || thread_task(chunk)) -> s.spawn(thread_task, chunk) (assumption T5)', _rw_spawn),
    'RW3': ('x.join().expect(..) -> x.join() (assumption T5: join returns the task result)', _rw_join),
    'RW5': ('threads.into_iter().map(join).reduce(reduce) -> join_all_reduce(threads, reduce) (external_body: left fold)', _rw_join_reduce),
    'RW6': ('for (A,B) in X.iter().enumerate() -> for A in 0..X.len() { let B = &X[A]; (Enumerate unsupported by Verus)', _rw_enumerate),
    'RW7': ('const -> exec const (Verus dual-mode consts cannot call exec fns)', _rw_exec_const),
    'RW9': ('debug_assert!(false, fmt, e) -> debug_assert!(false) (format args dropped, condition kept)', _rw_debug_assert_fmt),
    'RW10': ('vec![] -> Vec::new()', _rw_vec_macro),
}


# --------------------------------------------------------------------------------------------

def strip_docs_and_inline(text):
    """drop doc comments (`///`, `//!`), ordinary line comments are kept; drop #[inline(always)]"""
    out = []
    dropped = 0
    for line in text.split('\n'):
        s = line.strip()
        if s.startswith('///') or s.startswith('//!'):
            dropped += 1
            continue
        if s in ('#[inline(always)]', '#[inline]'):
            dropped += 1
            continue
        out.append(line)
    return '\n'.join(out), dropped


LABEL_RE = re.compile(r'^(\s*)\[([^\]]*)\]\s*(.*)$')


class Block:
    def __init__(self, kind, file, path, lineno):
        self.kind = kind          # 'fn' | 'item'
        self.file = file
        self.path = path
        self.lineno = lineno
        self.props = []
        self.ret = None
        self.hoist = []
        self.rw = []
        self.attrs = []
        self.sig = []             # list of raw lines
        self.loops = {}           # ordinal -> lines
        self.loopheads = {}       # ordinal -> lines
        self.atend = []           # ghost lines before the closing brace of the body
        self.before = []          # (anchor, lines)
        self.after = []
        self.replace = []         # (anchor, replacement) -- only for spec-level glue, listed in report
        self.name = None
        self.strip_pub = True
        self.private = False


def parse_template(path):
    """returns list of ('text', line) | ('block', Block)"""
    parts = []
    cur = None
    target = None
    with open(path) as f:
        lines = f.read().split('\n')
    for ln, line in enumerate(lines, 1):
        s = line.strip()
        if s.startswith('//@'):
            d = s[3:].strip()
            word, _, rest = d.partition(' ')
            rest = rest.strip()
            if word in ('fn', 'item'):
                if cur is not None:
                    raise GenError('%s:%d nested block' % (path, ln))
                file, _, p = rest.partition(' ')
                cur = Block(word, file, [x.strip() for x in p.split(' / ')], ln)
                target = None
            elif cur is None:
                raise GenError('%s:%d directive outside block: %s' % (path, ln, d))
            elif word == 'end':
                parts.append(('block', cur))
                cur = None
                target = None
            elif word == 'like':
                # reuse every section of an earlier block (same contract for a twin function)
                import copy
                src_b = [b for k, b in parts if k == 'block' and b.path[-1] == 'fn ' + rest]
                if len(src_b) != 1:
                    raise GenError('%s:%d like: block %s not found' % (path, ln, rest))
                keep = (cur.kind, cur.file, cur.path, cur.lineno)
                cur = copy.deepcopy(src_b[0])
                cur.kind, cur.file, cur.path, cur.lineno = keep
            elif word == 'props':
                cur.props = [x for x in re.split(r'[,\s]+', rest) if x]
            elif word == 'name':
                cur.name = rest
            elif word == 'ret':
                cur.ret = rest
            elif word == 'hoist':
                cur.hoist.append(rest)
            elif word == 'rw':
                cur.rw.extend(rest.split())
            elif word == 'attr':
                cur.attrs.append(rest)
            elif word == 'keep-pub':
                cur.strip_pub = False
            elif word == 'private':
                cur.private = True
            elif word == 'sig':
                target = cur.sig
            elif word == 'loop':
                target = cur.loops.setdefault(int(rest), [])
            elif word == 'loophead':
                target = cur.loopheads.setdefault(int(rest), [])
            elif word == 'atend':
                target = cur.atend
            elif word.startswith('before') or word.startswith('after'):
                # `before <anchor>` (anchor must occur exactly once) or `before#k/n <anchor>` (k-th of exactly n)
                w, _, occ = word.partition('#')
                if w not in ('before', 'after'):
                    raise GenError('%s:%d unknown directive %s' % (path, ln, word))
                k, n = (1, 1)
                if occ:
                    k, _, n = occ.partition('/')
                    k, n = int(k), int(n)
                target = []
                (cur.before if w == 'before' else cur.after).append((rest, target, k, n))
            else:
                raise GenError('%s:%d unknown directive %s' % (path, ln, word))
        else:
            if cur is None:
                parts.append(('text', line))
            elif target is None:
                if s:
                    raise GenError('%s:%d text inside block before a section directive' % (path, ln))
            else:
                target.append(line)
    if cur is not None:
        raise GenError('%s: unterminated block at line %d' % (path, cur.lineno))
    return parts


class Emitter:
    def __init__(self):
        self.lines = []
        self.clauses = []   # dict(gen_line, fn, label, props, kind, text)
        self.functions = []
        self.rewrites = []
        self.dropped = []

    def emit(self, text):
        for l in text.split('\n'):
            self.lines.append(l)

    def cur_line(self):
        return len(self.lines) + 1


def _clause_lines(raw, fn_name, default_props, kind, counter):
    """strip `[props label]` prefixes; returns list of (text, meta or None)"""
    out = []
    mode = None
    for line in raw:
        kw = re.match(r'^\s*(requires|ensures|invariant_except_break|invariant|decreases|recommends)\b', line)
        if kw:
            mode = kw.group(1)
        m = LABEL_RE.match(line)
        if m and not m.group(3).startswith('@'):
            inside = m.group(2).strip()
            toks = inside.split()
            props = default_props
            label = None
            if len(toks) == 2:
                props = toks[0].split(',')
                label = toks[1]
            elif len(toks) == 1:
                label = toks[0]
            else:
                raise GenError('bad clause label [%s]' % inside)
            out.append((m.group(1) + m.group(3), dict(fn=fn_name, label=label, props=props, kind=kind, clause_kind=mode, text=m.group(3).strip())))
        else:
            s = line.strip()
            if s and not s.startswith('//') and s not in ('requires', 'ensures', 'invariant', 'decreases', 'invariant_except_break', 'ensures') \
                    and not re.match(r'^(requires|ensures|invariant|decreases|invariant_except_break|no_unwind)\s*$', s):
                counter[0] += 1
                out.append((line, dict(fn=fn_name, label='%s%d' % (kind, counter[0]), props=default_props, kind=kind, clause_kind=mode, text=s, auto=True)))
            else:
                out.append((line, None))
    return out


def build_fn(block, repo, em):
    fpath = block.file if os.path.isabs(block.file) else os.path.join(repo, block.file)
    try:
        with open(fpath) as f:
            text = f.read()
    except OSError as e:
        raise GenError('anchor lost: cannot read %s (%s)' % (fpath, e))
    src = Src(text, block.file)
    try:
        s, e = locate(src, block.path)
    except ScanError as ex:
        raise GenError('anchor lost: %s' % ex)
    if block.kind == 'item':
        # include the attributes (derives) that precede the item; doc comments in between are dropped below
        while True:
            m = re.search(r'(^|\n)([ \t]*(#\[[^\n]*\]|///[^\n]*)[ \t]*\n)[ \t]*$', text[:s])
            if not m:
                break
            s = m.start(2)
    item = text[s:e]
    sha = hashlib.sha256(item.encode()).hexdigest()
    line0 = src.line_of(s)
    line1 = src.line_of(e - 1)
    fn_name = block.name or '::'.join(seg.split(' ', 1)[1] if not seg.startswith('impl') else seg[4:].strip() for seg in block.path)

    # ---- drops
    item, ndoc = strip_docs_and_inline(item)
    if ndoc:
        em.dropped.append('%s: %d doc-comment/#[inline] lines' % (fn_name, ndoc))
    if block.strip_pub:
        item2 = re.sub(r'(?m)^(\s*)pub\s*\([^)]*\)\s+', r'\1pub ', item)
        if item2 != item:
            em.dropped.append('%s: visibility `pub(crate)` widened to `pub` (single-module verifier input)' % fn_name)
        item = item2
    if block.private:
        item2 = re.sub(r'^(\s*)pub\s+', r'\1', item, count=1)
        if item2 != item:
            em.dropped.append('%s: visibility qualifier dropped (private fields in the contract)' % fn_name)
        item = item2
    for h in block.hoist:
        isrc = Src(item)
        try:
            hs, he = locate(isrc, ['fn ' + block.path[-1].split(' ', 1)[1], 'fn ' + h])
        except ScanError as ex:
            raise GenError('anchor lost (hoist %s): %s' % (h, ex))
        item = item[:hs].rstrip(' \t') + item[he:].lstrip('\n')
        em.rewrites.append('RW8 %s: nested fn `%s` emitted as a separate item (text unchanged)' % (fn_name, h))

    # ---- rewrites (anchored)
    for rw in block.rw:
        name, _, cnt = rw.partition('=')
        desc, fn = REWRITES[name]
        item, n = fn(item)
        want = int(cnt) if cnt else 1
        if n != want:
            raise GenError('anchor lost: rewrite %s matched %d times in %s (expected %d)' % (name, n, fn_name, want))
        em.rewrites.append('%s x%d in %s: %s' % (name, n, fn_name, desc))

    if block.kind == 'item':
        gen0 = em.cur_line()
        for a in block.attrs:
            em.emit(a)
        if block.sig:
            # const item with a contract: `const N: T <ensures ..> = E;`
            isrc = Src(item)
            eq = isrc.find_code(r'(?<![=!<>])=(?!=)')
            if not eq:
                raise GenError('anchor lost: no `=` in const item %s' % fn_name)
            em.emit(item[:eq[0]].rstrip())
            counter = [0]
            for (t, meta) in _clause_lines(block.sig, fn_name, block.props, 'sig', counter):
                if meta:
                    meta['gen_line'] = em.cur_line()
                    em.clauses.append(meta)
                em.emit(t)
            rhs = item[eq[0] + 1:].rstrip()
            if not rhs.endswith(';'):
                raise GenError('anchor lost: const item %s does not end with `;`' % fn_name)
            em.emit('{' + rhs[:-1] + ' }')
        else:
            em.emit(item)
        em.functions.append(dict(name=fn_name, kind='item', file=block.file, lines=[line0, line1], sha256=sha,
                                 gen_lines=[gen0, em.cur_line() - 1], props=block.props))
        return

    isrc = Src(item)
    # ---- signature: body brace
    fm = isrc.find_code(r'\bfn\b')
    if not fm:
        raise GenError('no fn in %s' % fn_name)
    body_open = isrc.next_code_char('{', fm[1])
    body_close = isrc.match_close(body_open)
    sig = item[:body_open].rstrip()
    body = item[body_open:body_close + 1]
    if block.ret:
        # name the return value: `-> T [where ...]` => `-> (r: T) [where ...]`
        po = isrc.next_code_char('(', fm[1])
        pc = isrc.match_close(po)
        after = item[pc + 1:body_open]
        m = re.match(r'(\s*->\s*)(.*?)(\s*(\bwhere\b.*)?)$', after, re.S)
        if not m:
            raise GenError('anchor lost: no return type in %s' % fn_name)
        rt = m.group(2).strip()
        sig = item[:pc + 1] + m.group(1) + '(%s: %s)' % (block.ret, rt) + (m.group(3).rstrip() if m.group(3).strip() else '')

    # ---- insertions in the body; compute on body text, apply from the end backwards
    bsrc = Src(body)
    inserts = []  # (pos, text_lines, kind, meta)
    lp = loops(bsrc, 1, len(body) - 1)
    for n, lines_ in block.loops.items():
        if n < 1 or n > len(lp):
            raise GenError('anchor lost: loop %d of %s not found (%d loops)' % (n, fn_name, len(lp)))
        inserts.append((lp[n - 1][1], lines_, 'inv', n))
    for n, lines_ in block.loopheads.items():
        if n < 1 or n > len(lp):
            raise GenError('anchor lost: loop %d of %s not found (%d loops)' % (n, fn_name, len(lp)))
        inserts.append((lp[n - 1][1] + 1, lines_, 'ghost', n))
    def _occ(anchor, k, n):
        cnt = body.count(anchor)
        if cnt != n:
            raise GenError('anchor lost: `%s` occurs %d times in %s (expected %d)' % (anchor, cnt, fn_name, n))
        pos = -1
        for _ in range(k):
            pos = body.index(anchor, pos + 1)
        return pos
    for anchor, lines_, k, n in block.before:
        inserts.append((_occ(anchor, k, n), lines_, 'ghost', anchor))
    for anchor, lines_, k, n in block.after:
        inserts.append((_occ(anchor, k, n) + len(anchor), lines_, 'ghost', anchor))
    if block.atend:
        inserts.append((len(body) - 1, block.atend, 'ghost', 'atend'))
    inserts.sort(key=lambda t: t[0])

    gen0 = em.cur_line()
    for a in block.attrs:
        em.emit(a)
    em.emit(sig)
    counter = [0]
    for (t, meta) in _clause_lines(block.sig, fn_name, block.props, 'sig', counter):
        if meta:
            meta['gen_line'] = em.cur_line()
            em.clauses.append(meta)
        em.emit(t)
    # body with insertions
    pos = 0
    pending = ''
    for (p, lines_, kind, key) in inserts:
        pending += body[pos:p]
        pos = p
        # flush pending text (may end mid-line)
        chunks = pending.split('\n')
        for c in chunks[:-1]:
            em.emit(c)
        tail = chunks[-1]
        if tail.strip():
            em.emit(tail)
        pending = ''
        k = 'inv%s_' % key if kind == 'inv' else 'ghost'
        for (t, meta) in _clause_lines(lines_, fn_name, block.props, k, counter) if kind == 'inv' else [(l, None) for l in lines_]:
            if meta:
                meta['gen_line'] = em.cur_line()
                em.clauses.append(meta)
            em.emit(t)
    pending += body[pos:]
    em.emit(pending)
    # ---- vacuity twin: same signature and `requires`, body `assert(false)`; it MUST fail to verify
    req = []
    mode = None
    for l in block.sig:
        st = l.strip()
        kw = re.match(r'^(requires|ensures|decreases|recommends|no_unwind)\b', st)
        if kw:
            mode = kw.group(1)
            st2 = st[len(mode):].strip()
            if mode == 'requires' and st2:
                req.append(st2)
            continue
        if mode == 'requires' and st and not st.startswith('//'):
            m = LABEL_RE.match(l)
            req.append((m.group(3) if m else st).strip())
    vac = None
    if req:
        vsig = re.sub(r'\bfn\s+(\w+)', lambda m: 'fn vacuity__' + m.group(1), sig, count=1)
        vsig = re.sub(r'^(\s*)(pub(\s*\([^)]*\))?\s+)?(const\s+)?fn\b', r'\1fn', vsig, count=1)
        vac0 = em.cur_line()
        em.emit(vsig)
        em.emit('    requires')
        for r_ in req:
            em.emit('        ' + r_)
        em.emit('{ assert(false); vstd::pervasive::unreached() }')
        vac = [vac0, em.cur_line() - 1]
    em.functions.append(dict(name=fn_name, kind='fn', file=block.file, lines=[line0, line1], sha256=sha,
                             gen_lines=[gen0, vac[0] - 1 if vac else em.cur_line() - 1], vacuity_lines=vac, props=block.props,
                             loops=len(lp), has_decreases=any('decreases' in l for ls in list(block.loops.values()) + [block.sig] for l in ls)))


def generate(unit, repo, out_rs, out_map, contracts_dir=None):
    """unit: name in contracts/units.json"""
    contracts_dir = contracts_dir or os.path.join(os.path.dirname(os.path.dirname(os.path.abspath(__file__))), 'contracts')
    with open(os.path.join(contracts_dir, 'units.json')) as f:
        units = json.load(f)
    if unit not in units:
        raise GenError('unknown unit %s' % unit)
    u = units[unit]
    em = Emitter()
    em.emit('// GENERATED by tools/vgen.py from contracts/{%s} and the working tree of %s -- do not edit' % (','.join(u['fragments']), repo))
    em.emit('#![allow(unused_imports, dead_code, unused_variables, unused_mut, non_snake_case, unused_parens, unused_braces)]')
    for l in u.get('features', []):
        em.emit(l)
    for l in u['uses']:
        em.emit(l)
    em.emit('verus! {')
    for frag in u['fragments']:
        em.emit('// ==== fragment %s' % frag)
        for kind, p in parse_template(os.path.join(contracts_dir, frag)):
            if kind == 'text':
                em.emit(p)
            else:
                build_fn(p, repo, em)
    em.emit('} // verus!')
    em.emit('fn main() {}')
    with open(out_rs, 'w') as f:
        f.write('\n'.join(em.lines) + '\n')
    # trusted-base scan of the generated text
    scan = {}
    for kw in ('assume(', 'admit(', 'external_body', 'assume_specification', 'exec_allows_no_decreases_clause',
               'external_type_specification', 'verifier::external]', 'uninterp', 'global size_of'):
        hits = [i + 1 for i, l in enumerate(em.lines) if kw in l and not l.strip().startswith('//')]
        if hits:
            scan[kw] = hits
    meta = dict(unit=unit, fragments=u['fragments'], out=out_rs, functions=em.functions, clauses=em.clauses,
                rewrites=em.rewrites, dropped=em.dropped, trusted_scan=scan)
    with open(out_map, 'w') as f:
        json.dump(meta, f, indent=1)
    return meta


if __name__ == '__main__':
    import argparse
    ap = argparse.ArgumentParser()
    ap.add_argument('unit')
    ap.add_argument('--repo', default='/repo')
    ap.add_argument('--out', required=True)
    a = ap.parse_args()
    try:
        m = generate(a.unit, a.repo, a.out, a.out + '.map.json')
    except GenError as e:
        print('GENERROR', e)
        sys.exit(2)
    print('generated %s: %d items, %d clauses' % (a.out, len(m['functions']), len(m['clauses'])))
