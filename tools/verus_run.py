"""Run Verus on generated units and classify the outcome per obligation.

Outcome classes (DESIGN.md 3.3):
  ok         every obligation of the unit discharged, every vacuity twin failed as it must
  violation  named obligations failed (list)
  undecided  generator error (anchor lost), compile error in the generated text, rlimit/timeout,
             verus crashed, a vacuity twin unexpectedly verified
"""
import json
import os
import re
import subprocess
import sys
import time

sys.path.insert(0, os.path.dirname(os.path.abspath(__file__)))
import vgen  # noqa: E402

VERUS = 'verus'


class UnitResult:
    def __init__(self, unit):
        self.unit = unit
        self.status = 'undecided'
        self.reason = ''
        self.meta = None
        self.failed = []        # list of dict(obligation, fn, label, props, message, gen_line, src)
        self.obligations = []   # list of dict(name, fn, props, kind, discharged)
        self.fn_times = {}
        self.smt_ms = 0
        self.wall_s = 0.0
        self.verified = 0
        self.errors = 0
        self.vacuity_expected = 0
        self.vacuity_failed_as_expected = 0
        self.raw = ''
        self.cmd = ''


def _fn_of_line(meta, line):
    for f in meta['functions']:
        a, b = f['gen_lines']
        if a <= line <= b:
            return f, False
        v = f.get('vacuity_lines')
        if v and v[0] <= line <= v[1]:
            return f, True
    return None, False


def _clause_of_line(meta, line):
    """the contract clause that starts on this generated line, if any"""
    for c in meta['clauses']:
        if c['gen_line'] == line:
            return c
    return None


def run_unit(unit, repo, outdir, extra_args=(), timeout=600):
    res = UnitResult(unit)
    rs = os.path.join(outdir, unit + '.rs')
    t0 = time.time()
    try:
        meta = vgen.generate(unit, repo, rs, rs + '.map.json')
    except vgen.GenError as e:
        res.reason = 'generator: %s' % e
        res.wall_s = time.time() - t0
        return res
    except Exception as e:  # scanner failure on unexpected text: undecided, never an alarm
        res.reason = 'generator crashed: %r' % e
        res.wall_s = time.time() - t0
        return res
    res.meta = meta
    cmd = [VERUS, os.path.basename(rs), '--output-json', '--time-expanded', '--error-format=json',
           '--multiple-errors', '8', '--triggers-mode', 'silent'] + list(extra_args)
    res.cmd = ' '.join(cmd)
    try:
        p = subprocess.run(cmd, cwd=outdir, capture_output=True, text=True, timeout=timeout)
    except subprocess.TimeoutExpired:
        res.reason = 'verus timeout after %ds' % timeout
        res.wall_s = time.time() - t0
        return res
    res.wall_s = time.time() - t0
    res.raw = p.stderr[-20000:]
    try:
        out = json.loads(p.stdout)
    except Exception:
        res.reason = 'verus produced no JSON (exit %d): %s' % (p.returncode, p.stderr[-800:])
        return res
    vr = out.get('verification-results', {})
    res.verified = vr.get('verified', 0)
    res.errors = vr.get('errors', 0)
    try:
        for mt in out['times-ms']['smt']['smt-run-module-times']:
            for fb in mt.get('function-breakdown', []):
                res.fn_times[fb['function']] = fb
        res.smt_ms = out['times-ms']['smt']['total']
    except Exception:
        pass
    diags = []
    for line in p.stderr.split('\n'):
        line = line.strip()
        if line.startswith('{') and '"$message_type"' in line:
            try:
                diags.append(json.loads(line))
            except Exception:
                pass
    errs = [d for d in diags if d.get('level') == 'error']
    if vr.get('encountered-vir-error') or any(d.get('code') for d in errs) or 'verified' not in vr:
        msgs = [d.get('message', '') for d in errs][:4]
        res.reason = 'generated text does not compile under Verus: %s' % ' | '.join(msgs)
        return res
    # obligations: labelled/auto clauses + per function body-safety + termination
    for c in meta['clauses']:
        if c.get('clause_kind') in ('requires', 'decreases', 'recommends'):
            continue  # preconditions are obligations of the CALLERS (body_safety); decreases is counted as `termination`
        res.obligations.append(dict(name='%s.%s' % (c['fn'], c['label']), fn=c['fn'], props=c['props'], kind=c['kind'],
                                    text=c['text'], discharged=True))
    for f in meta['functions']:
        if f['kind'] != 'fn':
            continue
        res.obligations.append(dict(name='%s.body_safety' % f['name'], fn=f['name'], props=f['props'], kind='safety',
                                    text='no overflow/underflow, no failed assert!/expect/index, callee preconditions hold', discharged=True))
        if f.get('has_decreases') or f.get('loops', 0) == 0:
            pass
        if f.get('has_decreases'):
            res.obligations.append(dict(name='%s.termination' % f['name'], fn=f['name'], props=f['props'], kind='termination',
                                        text='decreases clauses', discharged=True))
        if f.get('vacuity_lines'):
            res.vacuity_expected += 1
    # hand-written vacuity guards in template text: `fn vacuity__<name>` outside the extracted functions
    tmpl_vac = []   # (first line, last line, name)
    try:
        glines = open(rs).read().split('\n')
        for i, l in enumerate(glines):
            m = re.search(r'\bfn (vacuity__\w+)', l)
            if m and _fn_of_line(meta, i + 1)[0] is None:
                depth, j, seen = 0, i, False
                while j < len(glines):
                    depth += glines[j].count('{') - glines[j].count('}')
                    seen = seen or '{' in glines[j]
                    if seen and depth <= 0:
                        break
                    j += 1
                tmpl_vac.append((i + 1, j + 1, m.group(1)))
    except OSError:
        pass
    res.vacuity_expected += len(tmpl_vac)
    obl = {o['name']: o for o in res.obligations}
    vac_failed = set()
    undecided_msgs = []
    for d in errs:
        msg = d.get('message', '')
        if msg.startswith('aborting due to'):
            continue
        spans = d.get('spans', [])
        for ch in d.get('children', []):
            spans = spans + ch.get('spans', [])
        lines = [(s['line_start'], s.get('is_primary', False), s.get('label')) for s in spans if s.get('file_name', '').endswith(os.path.basename(rs))]
        if not lines:
            undecided_msgs.append(msg)
            continue
        prim = [l for l in lines if l[1]] or lines
        tv = [t for t in tmpl_vac if t[0] <= prim[0][0] <= t[1]]
        if tv:
            vac_failed.add(tv[0][2])
            continue
        f, vac = _fn_of_line(meta, prim[0][0])
        if vac:
            vac_failed.add(f['name'])
            continue
        if re.search(r'rlimit|resource limit|timed out|solver', msg, re.I) and 'assert' not in msg:
            undecided_msgs.append(msg)
            continue
        clause = None
        for (ln, _, _) in lines:
            c = _clause_of_line(meta, ln)
            if c is not None and (clause is None or (clause.get('auto') and not c.get('auto'))):
                clause = c
        outside = False
        if f is None:
            # the failed clause sits in template text (e.g. the `ensures` of a trait method declaration) but the
            # diagnostic also points into an extracted function (`at the end of the function body`): that function
            # fails the contract it has to meet
            for (ln, _, _) in lines:
                f2, vac2 = _fn_of_line(meta, ln)
                if f2 is not None:
                    f, vac, outside = f2, vac2, True
                    break
            if f is not None and vac:
                vac_failed.add(f['name'])
                continue
        if f is None:
            # failure in template text (lemma, spec) -- not code: undecided
            undecided_msgs.append('%s at generated line %d (outside extracted functions)' % (msg, prim[0][0]))
            continue
        if clause is not None and clause['fn'] == f['name']:
            name = '%s.%s' % (clause['fn'], clause['label'])
            props = clause['props']
            text = clause['text']
        elif 'termination' in msg or 'decreases' in msg:
            name = '%s.termination' % f['name']
            props = f['props']
            text = msg
        elif outside:
            name = '%s.declared_contract' % f['name']
            props = f['props']
            text = msg
        else:
            name = '%s.body_safety' % f['name']
            props = f['props']
            text = msg
        if name in obl:
            obl[name]['discharged'] = False
        src_line = f['lines'][0]
        res.failed.append(dict(obligation=name, fn=f['name'], props=props, message=msg, clause=text,
                               gen_line=prim[0][0], src='%s:%d-%d' % (f['file'], f['lines'][0], f['lines'][1]),
                               rendered=d.get('rendered', '')[:3000]))
    # a contract declared in template text and repeated as a labelled clause of the function is reported once (labelled)
    labelled = set(x['fn'] for x in res.failed if not x['obligation'].endswith(('.declared_contract', '.body_safety', '.termination')))
    res.failed = [x for x in res.failed if not (x['obligation'].endswith('.declared_contract') and x['fn'] in labelled)]
    res.vacuity_failed_as_expected = len(vac_failed)
    if undecided_msgs:
        res.reason = 'verifier could not decide: %s' % ' | '.join(undecided_msgs[:3])
        res.status = 'undecided'
        return res
    if res.vacuity_failed_as_expected != res.vacuity_expected:
        missing = [f['name'] for f in meta['functions'] if f.get('vacuity_lines') and f['name'] not in vac_failed] + [t[2] for t in tmpl_vac if t[2] not in vac_failed]
        res.reason = 'vacuity guard: precondition of %s is contradictory (assert(false) verified)' % ','.join(missing)
        res.status = 'undecided'
        return res
    if res.failed:
        res.status = 'violation'
    else:
        if res.errors != res.vacuity_expected:
            res.reason = 'error count %d does not match expected vacuity failures %d' % (res.errors, res.vacuity_expected)
            res.status = 'undecided'
            return res
        res.status = 'ok'
    return res


if __name__ == '__main__':
    import argparse
    import tempfile
    ap = argparse.ArgumentParser()
    ap.add_argument('unit')
    ap.add_argument('--repo', default='/repo')
    a = ap.parse_args()
    d = tempfile.mkdtemp(prefix='orxverif.', dir='/var/tmp')
    r = run_unit(a.unit, a.repo, d)
    print(r.status, r.reason, 'verified', r.verified, 'errors', r.errors, 'vacuity', r.vacuity_failed_as_expected, '/', r.vacuity_expected,
          'obligations', len(r.obligations), 'wall', round(r.wall_s, 1))
    for f in r.failed:
        print('FAILED', f['obligation'], f['props'], f['message'])
    import shutil
    shutil.rmtree(d)
