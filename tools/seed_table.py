#!/usr/bin/env python3
"""seed_table.py: regenerate the table of DESIGN.md section 8 from seeded/*/meta.json and seeded/*/result_quick.txt
(written by tools/run_seeds.py). The table sits between the markers <!-- SEED-TABLE-BEGIN --> / <!-- SEED-TABLE-END -->."""
import json, os, re
VERIF = os.path.dirname(os.path.dirname(os.path.abspath(__file__)))
rows = []
n_total = n_caught = 0
by_backend = dict(verus=0, kani=0, both=0)
missed = []
for name in sorted(os.listdir(os.path.join(VERIF, 'seeded'))):
    d = os.path.join(VERIF, 'seeded', name)
    if not os.path.exists(os.path.join(d, 'patch.diff')):
        continue
    meta = json.load(open(os.path.join(d, 'meta.json')))
    n_total += 1
    res = os.path.join(d, 'result_quick.txt')
    txt = open(res).read() if os.path.exists(res) else ''
    m = re.search(r'exit (\d+)', txt)
    rc = int(m.group(1)) if m else None
    obl = re.findall(r'FAILED-OBLIGATION (\S+) \((\S+)\)', txt)
    if rc == 1 and obl:
        n_caught += 1
        v = any(b.startswith('verus') for _, b in obl)
        k = any(b.startswith('kani') for _, b in obl)
        by_backend['both' if v and k else ('verus' if v else 'kani')] += 1
        shown = ', '.join('`%s`' % o for o, _ in obl[:3]) + (' (+%d more)' % (len(obl) - 3) if len(obl) > 3 else '')
        result = 'VIOLATION: ' + shown
    elif rc == 2:
        missed.append(name)
        result = '**undecided (exit 2)**: ' + ' '.join(l.strip() for l in txt.split('\n') if l.startswith('UNDECIDED'))[:300]
    elif rc == 0:
        missed.append(name)
        result = '**not caught (exit 0)**'
    else:
        missed.append(name)
        result = 'not run'
    change = meta.get('change', '').replace('|', '\\|')
    rows.append('| `%s` | %s | %s | %s |' % (name, meta.get('property'), change, result.replace('|', '\\|')))
table = ['| seeded change | breaks | the change | `./check <property>` (quick tier) on /repo + patch |', '|---|---|---|---|'] + rows
summary = ('\nQuick tier: %d of %d seeded changes are reported as VIOLATION with a named obligation '
           '(%d by Verus obligations on the real text only, %d by Kani harnesses only, %d by both)%s. '
           'Runs made with `--verus-first` stop after the Verus units when these already report the violation (the result file '
           'says so), so "Verus only" there means that the Kani harnesses were not consulted, not that they would have passed.\n' % (
               n_caught, n_total, by_backend['verus'], by_backend['kani'], by_backend['both'],
               ('; not caught: ' + ', '.join('`%s`' % x for x in missed)) if missed else ''))
text = '\n'.join(table) + '\n' + summary
p = os.path.join(VERIF, 'DESIGN.md')
s = open(p).read()
b, e = '<!-- SEED-TABLE-BEGIN -->', '<!-- SEED-TABLE-END -->'
if b in s and e in s:
    s = s[:s.index(b) + len(b)] + '\n' + text + s[s.index(e):]
    open(p, 'w').write(s)
    print('DESIGN.md updated: %d/%d caught' % (n_caught, n_total))
else:
    print(text)
