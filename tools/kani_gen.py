"""Generate the Kani harness modules that are injected into a scratch copy of the real crate.

Per kernel file `src/core/<kernel>.rs` a module `#[cfg(kani)] mod vk { use super::*; ... }` is
appended (the `task` functions are private to their file), plus the shared toolkit
`src/core/verif_kani/` (model iterator = assumed contract T1, Runner/merge contract stubs, symbolic
closures, oracle). Shapes are concrete (DESIGN.md 2.3: symbolic shapes exhaust CBMC), contents,
closure tables and pre-existing target contents are symbolic.

Every harness has a name `k_<family>_<kernel>_<shape>`; `HARNESSES` maps name -> metadata
(properties served, tier, bound description, covers expected).
"""

KERNELS = {
    # kernel file      kind   first closure   key form
    'map_fil_col': dict(kind='MF', f0='map', fam='col', key='pos'),
    'filtermap_fil_col': dict(kind='FMF', f0='fmap', fam='col', key='pos'),
    'flatmap_fil_col': dict(kind='FLF', f0='flat', fam='col', key='pair'),
    'map_fil_col_x': dict(kind='MF', f0='map', fam='colx'),
    'filtermap_fil_col_x': dict(kind='FMF', f0='fmap', fam='colx'),
    'flatmap_fil_col_x': dict(kind='FLF', f0='flat', fam='colx'),
    'map_fil_cnt': dict(kind='MF', f0='map', fam='cnt', entry='map_fil_cnt'),
    'filtermap_fil_cnt': dict(kind='FMF', f0='fmap', fam='cnt', entry='filtermap_fil_cnt'),
    'flatmap_fil_cnt': dict(kind='FLF', f0='flat', fam='cnt', entry='fmap_fil_cnt'),
    'map_fil_red': dict(kind='MF', f0='map', fam='red', entry='map_fil_red'),
    'filtermap_fil_red': dict(kind='FMF', f0='fmap', fam='red', entry='filtermap_fil_red'),
    'flatmap_fil_red': dict(kind='FLF', f0='flat', fam='red', entry='fmap_fil_red'),
    'map_fil_find': dict(kind='MF', f0='map', fam='find', entry='map_fil_find'),
    'filtermap_fil_find': dict(kind='FMF', f0='fmap', fam='find', entry='filtermap_fil_find'),
    'flatmap_fil_find': dict(kind='FLF', f0='flat', fam='find', entry='fmap_fil_find'),
}

FAM_PROPS = {
    'col': ['C01', 'C05', 'C11'],
    'colx': ['C07', 'C05', 'C11'],
    'cnt': ['C04', 'C05', 'C11'],
    'red': ['C03', 'C05', 'C11'],
    'find': ['C02', 'C10', 'C05', 'C11'],
}

# single-worker shapes: (n, c, mine-mask, tier)
TASK_SHAPES = [
    (3, 1, (True, False, True), 'quick'),
    (3, 2, (False, True), 'quick'),
    (3, 2, (True, True), 'thorough'),
    (3, 1, (False, True, False), 'thorough'),
    (3, 1, (True, True, True), 'thorough'),
    (2, 1, (False, False), 'thorough'),
    (3, 3, (True,), 'thorough'),
    (2, 4, (True,), 'thorough'),
]

# flat_map harnesses are several times more expensive (nested adaptor chains): smaller shapes
FLAT_TASK_SHAPES = [
    (1, 1, (True,), 'quick'),
    (2, 1, (False, True), 'quick'),
    (3, 2, (False, True), 'quick'),
    (2, 1, (True, True), 'thorough'),
    (2, 2, (True,), 'thorough'),
    (3, 2, (True, False), 'thorough'),
    (3, 2, (True, True), 'thorough'),
    # the chunked arm on the smallest input (one element, chunk size 2): cheap enough for the quick tier (C11: the pull sizes)
    (1, 2, (True,), 'quick'),
]

# two-worker shapes for the glue harnesses: (n, c, owner table, tier)
GLUE_SHAPES = [
    (3, 1, (1, 0, 1), 'quick'),
    (3, 2, (1, 0), 'quick'),
    (3, 1, (0, 1, 0), 'thorough'),
    (3, 2, (0, 1), 'thorough'),
    (3, 1, (1, 1, 0), 'thorough'),
    (2, 4, (1,), 'thorough'),
    (0, 1, (), 'thorough'),
]

HARNESSES = {}


def _mask(m):
    full = list(m) + [False] * (4 - len(m))
    return '[' + ', '.join('true' if x else 'false' for x in full) + ']'


def _owner(o):
    full = list(o) + [0] * (4 - len(o))
    return '[' + ', '.join(str(x) for x in full) + ']'


def _mname(m):
    return ''.join('1' if x else '0' for x in m) or 'e'


TASK_COMMON = '''
    /// single-worker task contract, shape (n, c, mine): worker 0 receives exactly the blocks k with mine[k]
    fn task_setup<'a>(log: &'a Log, n: usize, c: usize, mine: [bool; MAXN]) -> (ModelIter<'a>, [u8; MAXN], Cl<'a>) {
        let (it, data) = single_worker_iter(log, n, c, mine);
        let cl = Cl::any(log);
        // {ltnote}
        kani::assume(cl.lt[0] <= {ltmax} && cl.lt[1] <= {ltmax} && cl.lt[2] <= {ltmax} && cl.lt[3] <= {ltmax});
        (it, data, cl)
    }

    fn pull_log_ok(log: &Log) {
        assert!(!log.bad_pull_size.get(), "C11: a pull did not request the worker's chunk size");
        assert!(!log.pull_after_none.get(), "C10: a worker pulled again after the source returned None");
    }
'''

TASK_COL = '''
    fn check_task(n: usize, c: usize, mine: [bool; MAXN]) {
        let log = Log::new();
        let (it, data, cl) = task_setup(&log, n, c, mine);
        let f0 = cl.{f0}();
        let f1 = cl.fil();
        let got = task(&it, &f0, &f1, c);
        // (the result vector is only ever indexed with concrete indices: symbolic indexing into the heap
        // object makes CBMC's post-processing explode)
        let (exp, keys, m) = worker_outputs(&cl, Kind::{kind}, data, n, c, mine);
        assert!(got.len() == m, "C01: the worker's result has missing or extra elements");
        let mut g = 0;
        while g < {maxout} {
            if g < m {
                assert!(got[g].0 == {keyexpr}, "C01: key is not the source position (keys must be strictly increasing per worker)");
                assert!(got[g].1 == exp[g], "C01: wrong value");
            }
            g += 1;
        }
        let mut rejected = false;
        let mut i = 0;
        while i < n {
            if mine[i / c] {
                let (_o, cnt) = cl.expand(Kind::{kind}, i as u8, data[i]);
                if cnt == 0 {
                    rejected = true;
                }
                assert!(log.calls(ST_MAP, i) == 1, "C05: first-stage closure not called exactly once on a delivered element");
                assert!(log.calls(ST_FIL, i) == cl.fil_calls(Kind::{kind}, data[i]), "C05: filter call count differs from the sequential chain");
            } else {
                assert!(log.calls(ST_MAP, i) == 0 && log.calls(ST_FIL, i) == 0, "C05: closure called on an element delivered to another worker");
            }
            i += 1;
        }
        pull_log_ok(&log);
        kani::cover!(rejected);
        kani::cover!(m >= 1);
    }
'''

TASK_COLX = '''
    fn check_task(n: usize, c: usize, mine: [bool; MAXN]) {
        let log = Log::new();
        let (it, data, cl) = task_setup(&log, n, c, mine);
        let f0 = cl.{f0}();
        let f1 = cl.fil();
        let got = task(&it, &f0, &f1, c);
        let (exp, _keys, m) = worker_outputs(&cl, Kind::{kind}, data, n, c, mine);
        assert!(got.len() == m, "C07: the worker's result has missing, extra or duplicated elements");
        // copy with concrete indices, then compare as multisets
        let mut flat = [E { p: 0, v: 0 }; 8];
        let mut g = 0;
        while g < {maxout} {
            if g < m {
                flat[g] = got[g];
            }
            g += 1;
        }
        let mut used = [false; 8];
        let mut j = 0;
        while j < {maxout} {
            if j < m {
                let mut found = false;
                let mut g = 0;
                while g < {maxout} {
                    if g < m && !found && !used[g] && flat[g] == exp[j] {
                        used[g] = true;
                        found = true;
                    }
                    g += 1;
                }
                assert!(found, "C07: a surviving element is missing from the worker's result");
            }
            j += 1;
        }
        let mut rejected = false;
        let mut i = 0;
        while i < n {
            if mine[i / c] {
                let (_o, cnt) = cl.expand(Kind::{kind}, i as u8, data[i]);
                if cnt == 0 {
                    rejected = true;
                }
                assert!(log.calls(ST_MAP, i) == 1, "C05: first-stage closure not called exactly once on a delivered element");
                assert!(log.calls(ST_FIL, i) == cl.fil_calls(Kind::{kind}, data[i]), "C05: filter call count differs from the sequential chain");
            } else {
                assert!(log.calls(ST_MAP, i) == 0 && log.calls(ST_FIL, i) == 0, "C05: closure called on an element delivered to another worker");
            }
            i += 1;
        }
        pull_log_ok(&log);
        kani::cover!(rejected);
        kani::cover!(m >= 1);
    }
'''

TASK_CNT = '''
    fn check_task(n: usize, c: usize, mine: [bool; MAXN]) {
        let log = Log::new();
        let (it, data, cl) = task_setup(&log, n, c, mine);
        let f0 = cl.{f0}();
        let f1 = cl.fil();
        let got = task(&it, &f0, &f1, c);
        // value first (C04), call counts afterwards (C05): a failed assertion ends the path
        let (_exp, _keys, total) = worker_outputs(&cl, Kind::{kind}, data, n, c, mine);
        assert!(got == total, "C04: the worker's count differs from the number of survivors among its elements");
        let mut i = 0;
        let mut rejected = false;
        while i < n {
            if mine[i / c] {
                let (_out, cnt) = cl.expand(Kind::{kind}, i as u8, data[i]);
                assert!(log.calls(ST_MAP, i) == 1, "C05: first-stage closure not called exactly once on a delivered element");
                assert!(log.calls(ST_FIL, i) == cl.fil_calls(Kind::{kind}, data[i]), "C05: filter call count differs from the sequential chain");
                if cnt == 0 {
                    rejected = true;
                }
            } else {
                assert!(log.calls(ST_MAP, i) == 0 && log.calls(ST_FIL, i) == 0, "C05: closure called on an element delivered to another worker");
            }
            i += 1;
        }
        pull_log_ok(&log);
        kani::cover!(rejected);
        kani::cover!(total >= 1);
    }
'''

TASK_RED = '''
    fn check_task(n: usize, c: usize, mine: [bool; MAXN], op: Op) {
        let log = Log::new();
        let (it, data, cl) = task_setup(&log, n, c, mine);
        let f0 = cl.{f0}();
        let f1 = cl.fil();
        let r = red(&log, op);
        let got = task(&it, &f0, &f1, &r, c);
        // value first (C03), call counts afterwards (C05): a failed assertion ends the path
        let (exp, _keys, total) = worker_outputs(&cl, Kind::{kind}, data, n, c, mine);
        match got {
            None => assert!(total == 0, "C03: None although an element survives"),
            Some(e) => {
                assert!(total >= 1, "C03: a value although nothing survives");
                let mut acc = exp[0].v;
                let mut j = 1;
                while j < {maxout} {
                    if j < total {
                        acc = apply(op, acc, exp[j].v);
                    }
                    j += 1;
                }
                assert!(e.v == acc, "C03: the worker's accumulator is not the fold of its survivors");
            }
        }
        // every survivor is combined exactly once: survivors - 1 operator calls
        let ncalls = log.total(ST_P);
        assert!(ncalls + 1 == total || (total == 0 && ncalls == 0), "C03: number of reduce calls is not survivors - 1");
        let mut i = 0;
        let mut rejected = false;
        while i < n {
            if mine[i / c] {
                let (_out, cnt) = cl.expand(Kind::{kind}, i as u8, data[i]);
                assert!(log.calls(ST_MAP, i) == 1, "C05: first-stage closure not called exactly once on a delivered element");
                assert!(log.calls(ST_FIL, i) == cl.fil_calls(Kind::{kind}, data[i]), "C05: filter call count differs from the sequential chain");
                if cnt == 0 {
                    rejected = true;
                }
            } else {
                assert!(log.calls(ST_MAP, i) == 0 && log.calls(ST_FIL, i) == 0, "C05: closure called on an element delivered to another worker");
            }
            i += 1;
        }
        pull_log_ok(&log);
        kani::cover!(rejected);
        kani::cover!(total >= 1);
    }
'''

TASK_FIND = '''
    fn check_task(n: usize, c: usize, mine: [bool; MAXN]) {
        let log = Log::new();
        let (it, data, cl) = task_setup(&log, n, c, mine);
        let f0 = cl.{f0}();
        let f1 = cl.fil();
        let got = task(&it, &f0, &f1, c);
        // expected: the first survivor among my elements, in source order
        let mut exp: Option<(usize, E)> = None;
        let mut i = 0;
        while i < n {
            if mine[i / c] && exp.is_none() {
                let (out, cnt) = cl.expand(Kind::{kind}, i as u8, data[i]);
                if cnt >= 1 {
                    exp = Some((i, out[0]));
                }
            }
            i += 1;
        }
        match (got, exp) {
            (None, None) => {}
            (Some(g), Some(e)) => {
                assert!(g.0 == e.0, "C02: reported index is not the source position of the worker's first match");
                assert!(g.1 == e.1, "C02: wrong value");
            }
            (None, Some(_)) => assert!(false, "C02: None although one of the worker's elements matches"),
            (Some(_), None) => assert!(false, "C02: a match although none of the worker's elements matches"),
        }
        // C10: a worker that found a match signalled the others and pulled nothing afterwards;
        // elements of its later blocks were never evaluated; nothing is evaluated twice (C05)
        assert!(log.skipped_by[0].get() == got.is_some(), "C10: skip_to_end must be called exactly when the worker found a match");
        assert!(!log.pull_after_own_skip.get(), "C10: the worker pulled again after its own skip_to_end");
        let mut i = 0;
        while i < n {
            assert!(log.calls(ST_MAP, i) <= 1, "C05: first-stage closure called twice on one element");
            if !mine[i / c] {
                assert!(log.calls(ST_MAP, i) == 0 && log.calls(ST_FIL, i) == 0, "C05: closure called on an element delivered to another worker");
            }
            if let Some(e) = exp {
                if i / c > e.0 / c {
                    assert!(log.calls(ST_MAP, i) == 0 && log.calls(ST_FIL, i) == 0, "C10: element of a later chunk evaluated after the match");
                }
                if mine[i / c] && i < e.0 {
                    assert!(log.calls(ST_MAP, i) == 1, "C02: an element before the match was skipped");
                }
            } else if mine[i / c] {
                assert!(log.calls(ST_MAP, i) == 1, "C02: an element was skipped although no match was found");
            }
            i += 1;
        }
        assert!(!log.bad_pull_size.get(), "C11: a pull did not request the worker's chunk size");
        kani::cover!(got.is_some());
        kani::cover!(got.is_none());
    }
'''

TASK_COLKEYS = '''
    /// keys only: the (key, value) pairs of these kernels cannot be read back in full (CBMC capacity), the sort keys can
    fn check_task_keys(n: usize, c: usize, mine: [bool; MAXN]) {
        let log = Log::new();
        let (it, data, cl) = task_setup(&log, n, c, mine);
        let f0 = cl.{f0}();
        let f1 = cl.fil();
        let got = task(&it, &f0, &f1, c);
        let (_exp, keys, m) = worker_outputs(&cl, Kind::{kind}, data, n, c, mine);
        assert!(got.len() == m, "C01: the worker's result has missing or extra elements");
        let mut g = 0;
        while g < {maxout} {
            if g < m {
                assert!(got[g].0 == {keyexpr}, "C01: key is not (source position, inner position): keys must be strictly increasing per worker and unique across workers");
            }
            g += 1;
        }
        pull_log_ok(&log);
        kani::cover!(m >= 1);
        kani::cover!(m >= 2);
    }
'''

TASK_TEMPLATES = dict(col=TASK_COL, colx=TASK_COLX, cnt=TASK_CNT, red=TASK_RED, find=TASK_FIND)


def _fill(t, **kw):
    for k, v in kw.items():
        t = t.replace('{' + k + '}', v)
    return t



STUBS_ALL = """    #[kani::stub(crate::core::runner::Runner::run, crate::core::verif_kani::stub_run)]
    #[kani::stub(crate::core::runner::Runner::run_map, crate::core::verif_kani::stub_run_map)]
    #[kani::stub(crate::core::runner::Runner::reduce, crate::core::verif_kani::stub_reduce)]
    #[kani::stub(crate::core::map_fil_col::heap_sort_into_vec, crate::core::verif_kani::stub_heap_sort_into_vec)]
    #[kani::stub(crate::core::map_fil_col::heap_sort_into_pinned_vec, crate::core::verif_kani::stub_heap_sort_into_pinned_vec)]
"""

FORBID_COLX = """    #[kani::stub(crate::core::map_fil_col_x::par_map_fil_col_x_rec, crate::core::verif_kani::forbid_map_col_x)]
    #[kani::stub(crate::core::filtermap_fil_col_x::par_filtermap_fil_col_x_rec, crate::core::verif_kani::forbid_filtermap_col_x)]
    #[kani::stub(crate::core::flatmap_fil_col_x::par_flatmap_fil_col_x_rec, crate::core::verif_kani::forbid_flatmap_col_x)]
"""

FORBID_ALL = """    #[kani::stub(crate::core::runner::Runner::run, crate::core::verif_kani::forbid_run)]
    #[kani::stub(crate::core::runner::Runner::run_map, crate::core::verif_kani::forbid_run_map)]
    #[kani::stub(crate::core::runner::Runner::reduce, crate::core::verif_kani::forbid_reduce)]
"""

GLUE_COMMON = """
    /// kernel entry point with the Runner and the merge replaced by their contracts; 2 workers,
    /// concrete chunk -> worker assignment `owner`, early-exit frontier `cut` (find kernels)
    fn glue_setup<'a>(log: &'a Log, n: usize, c: usize, owner: [u8; MAXN], cut: usize) -> (ModelIter<'a>, [u8; MAXN], Cl<'a>, Params) {
        let (mut it, data) = multi_worker_iter(log, n, c, owner, 2);
        it.cut = cut;
        // the same shapes are run with a source of unknown length (try_get_len() == None): harness name suffix `_u`
        it.known_len = unsafe { UNKNOWN_LEN } != UNKNOWN_YES;
        let cl = Cl::any(log);
        kani::assume(cl.lt[0] <= {ltmax} && cl.lt[1] <= {ltmax} && cl.lt[2] <= {ltmax} && cl.lt[3] <= {ltmax});
        (it, data, cl, par_params(2, c))
    }

    fn glue_common_post(log: &Log, params: Params, n: usize) {
        assert!(runner_called_once_with(params), "C12,C15: the kernel did not hand the caller's parameters to the Runner exactly once");
        assert!(!log.bad_pull_size.get(), "C11: a pull did not request the worker's chunk size");
        assert!(!log.pull_after_none.get(), "C10: a worker pulled again after the source returned None");
    }
"""

GLUE_COL = """
    fn check_glue(n: usize, c: usize, owner: [u8; MAXN]) {
        let log = Log::new();
        let (it, data, cl, params) = glue_setup(&log, n, c, owner, MAXN);
        let pre = E { p: 77, v: kani::any() };
        let mut out: Vec<E> = Vec::with_capacity(8);
        out.push(pre);
        {entry}(params, it, cl.{f0}(), cl.fil(), &mut out);
        let (exp, m) = seq_outputs(&cl, Kind::{kind}, data, n);
        assert!(out.len() == m + 1, "C01: wrong number of collected elements");
        assert!(out[0] == pre, "C06: the existing element of the target was disturbed");
        let mut j = 0;
        while j < m {
            assert!(out[j + 1] == exp[j], "C01: collected sequence differs from the sequential chain");
            j += 1;
        }
        let mut i = 0;
        while i < n {
            assert!(log.calls(ST_MAP, i) == 1, "C05: first-stage closure not called exactly once per element");
            assert!(log.calls(ST_FIL, i) == cl.fil_calls(Kind::{kind}, data[i]), "C05: filter call count differs from the sequential chain");
            i += 1;
        }
        glue_common_post(&log, params, n);
        assert!(unsafe { MERGE_CALLS } == 1, "C01: the ordered merge was not used exactly once");
        kani::cover!(m >= 2);
        kani::cover!(m < n);
    }
"""

GLUE_COLX = """
    fn check_glue(n: usize, c: usize, owner: [u8; MAXN]) {
        let log = Log::new();
        let (it, data, cl, params) = glue_setup(&log, n, c, owner, MAXN);
        let mut out = orx_split_vec::SplitVec::with_recursive_growth();
        {entry}(params, it, cl.{f0}(), cl.fil(), &mut out);
        let (exp, m) = seq_outputs(&cl, Kind::{kind}, data, n);
        // flatten the fragments (avoids the index arithmetic of recursive growth in the checker itself)
        let mut flat = [E { p: 0, v: 0 }; 8];
        let mut total = 0;
        for frag in out.fragments() {
            for x in frag.iter() {
                assert!(total < 8);
                flat[total] = *x;
                total += 1;
            }
        }
        assert!(total == m, "C07: wrong number of collected elements");
        let mut used = [false; 8];
        let mut j = 0;
        while j < m {
            let mut found = false;
            let mut g = 0;
            while g < total {
                if !found && !used[g] && flat[g] == exp[j] {
                    used[g] = true;
                    found = true;
                }
                g += 1;
            }
            assert!(found, "C07: an element of the sequential result is missing");
            j += 1;
        }
        let mut i = 0;
        while i < n {
            assert!(log.calls(ST_MAP, i) == 1, "C05: first-stage closure not called exactly once per element");
            assert!(log.calls(ST_FIL, i) == cl.fil_calls(Kind::{kind}, data[i]), "C05: filter call count differs from the sequential chain");
            i += 1;
        }
        glue_common_post(&log, params, n);
        kani::cover!(m >= 2);
        kani::cover!(m < n);
    }
"""

GLUE_CNT = """
    fn check_glue(n: usize, c: usize, owner: [u8; MAXN]) {
        let log = Log::new();
        let (it, data, cl, params) = glue_setup(&log, n, c, owner, MAXN);
        let got = {entry}(params, it, cl.{f0}(), cl.fil());
        let (_exp, m) = seq_outputs(&cl, Kind::{kind}, data, n);
        assert!(got == m, "C04: count differs from the sequential chain");
        let mut i = 0;
        while i < n {
            assert!(log.calls(ST_MAP, i) == 1, "C05: first-stage closure not called exactly once per element");
            assert!(log.calls(ST_FIL, i) == cl.fil_calls(Kind::{kind}, data[i]), "C05: filter call count differs from the sequential chain");
            i += 1;
        }
        glue_common_post(&log, params, n);
        kani::cover!(m >= 2);
        kani::cover!(m < n);
    }
"""

GLUE_RED = """
    fn check_glue(n: usize, c: usize, owner: [u8; MAXN], op: Op) {
        let log = Log::new();
        let (it, data, cl, params) = glue_setup(&log, n, c, owner, MAXN);
        let got = {entry}(params, it, cl.{f0}(), cl.fil(), red(&log, op));
        let (exp, m) = seq_outputs(&cl, Kind::{kind}, data, n);
        match got {
            None => assert!(m == 0, "C03: None although an element survives"),
            Some(e) => {
                assert!(m >= 1, "C03: a value although nothing survives");
                let mut acc = exp[0].v;
                let mut j = 1;
                while j < m {
                    acc = apply(op, acc, exp[j].v);
                    j += 1;
                }
                assert!(e.v == acc, "C03: result is not the fold of all survivors");
            }
        }
        assert!(log.total(ST_P) + 1 == m || (m == 0 && log.total(ST_P) == 0), "C03: number of reduce calls is not survivors - 1");
        let mut i = 0;
        while i < n {
            assert!(log.calls(ST_MAP, i) == 1, "C05: first-stage closure not called exactly once per element");
            i += 1;
        }
        glue_common_post(&log, params, n);
        kani::cover!(m >= 2);
        kani::cover!(m == 0);
    }
"""

GLUE_FIND = """
    fn check_glue(n: usize, c: usize, owner: [u8; MAXN], cut: usize) {
        let log = Log::new();
        let (it, data, cl, params) = glue_setup(&log, n, c, owner, cut);
        let nb = it.nblocks();
        let got = {entry}(params, it, cl.{f0}(), cl.fil());
        // frontier rule (T1): blocks beyond `cut` can only be withheld if somebody signalled early exit
        kani::assume(nb == 0 || cut >= nb - 1 || log.skipped.get());
        let (exp, m) = seq_outputs(&cl, Kind::{kind}, data, n);
        match got {
            None => assert!(m == 0, "C02: None although an element matches"),
            Some(g) => {
                assert!(m >= 1, "C02: a match although nothing matches");
                {findcheck}
            }
        }
        let mut i = 0;
        while i < n {
            assert!(log.calls(ST_MAP, i) <= 1, "C05: first-stage closure called twice on one element");
            i += 1;
        }
        assert!(log.skipped.get() == (m >= 1), "C10: skip_to_end must be called exactly when a match exists");
        assert!(!log.pull_after_own_skip.get(), "C10: a worker pulled again after its own skip_to_end");
        glue_common_post(&log, params, n);
        kani::cover!(m >= 1);
        kani::cover!(m == 0);
        kani::cover!(m >= 1 && log.worker_of(ST_MAP, exp[0].p as usize) == 1);
    }
"""

GLUE_TEMPLATES = dict(col=GLUE_COL, colx=GLUE_COLX, cnt=GLUE_CNT, red=GLUE_RED, find=GLUE_FIND)

GLUE_ENTRY = {
    'map_fil_col': 'par_map_fil_col_vec', 'filtermap_fil_col': 'par_filtermap_fil_col_vec', 'flatmap_fil_col': 'par_flatmap_fil_col_vec',
    'map_fil_col_x': 'par_map_fil_col_x_rec', 'filtermap_fil_col_x': 'par_filtermap_fil_col_x_rec', 'flatmap_fil_col_x': 'par_flatmap_fil_col_x_rec',
}

# collect kernels build nested vectors and go through the merge contract: 2 elements are what CBMC affords
COL_GLUE_SHAPES = [
    (2, 1, (1, 0), 'quick'),
    (2, 1, (0, 1), 'thorough'),
    (2, 2, (1,), 'thorough'),
    (3, 1, (1, 0, 1), 'thorough'),
]

FLAT_GLUE_SHAPES = [
    (2, 1, (1, 0), 'quick'),
    (2, 2, (1,), 'thorough'),
    (2, 1, (0, 1), 'thorough'),
]


def gen_glue(kernel, body):
    k = KERNELS[kernel]
    fam = k['fam']
    entry = k.get('entry') or GLUE_ENTRY[kernel]
    findcheck = ('assert!(g.0 == exp[0].p as usize && g.1 == exp[0], "C02: not the first match in source order (or wrong index)");'
                 if kernel != 'flatmap_fil_find' else
                 'assert!(g == exp[0], "C02: not the first match in source order");')
    body.append(_fill(GLUE_COMMON, ltmax=('2' if (k['kind'] == 'FLF' and fam == 'col') else '1')))
    body.append(_fill(GLUE_TEMPLATES[fam], f0=k['f0'], kind=k['kind'], entry=entry, findcheck=findcheck))
    shapes = FLAT_GLUE_SHAPES if k['kind'] == 'FLF' else (COL_GLUE_SHAPES if fam in ('col', 'colx') else GLUE_SHAPES)
    for (n, c, owner, tier) in shapes:
        if n == 0 and fam in ('colx',):
            continue
        nb = (n + c - 1) // c
        cuts = [None]
        if fam == 'find':
            cuts = list(range(nb)) if nb > 0 else [0]
        for cut in cuts:
            t2 = tier
            if fam == 'find' and cut is not None and cut < nb - 1 and tier == 'quick' and c != 1:
                t2 = 'quick'
            if kernel == 'flatmap_fil_col_x':
                t2 = 'thorough'
            name = 'k_glue_%s_n%dc%d_o%s%s' % (kernel, n, c, ''.join(str(x) for x in owner) or 'e', ('_f%d' % cut) if cut is not None else '')
            outs = (2 * n) if (k['kind'] == 'FLF' and fam == 'col') else n
            unwind = max(n, outs, 2) + 2
            args = '%d, %d, %s' % (n, c, _owner(owner))
            if fam == 'red':
                args += ', Op::Xor'
            if fam == 'find':
                args += ', %d' % cut
            body.append('    #[kani::proof]\n    #[kani::unwind(%d)]\n%s    fn %s() { unsafe { UNKNOWN_LEN = UNKNOWN_NO }; check_glue(%s); }\n' % (unwind, STUBS_ALL, name, args))
            first_quick = (n, c, owner, tier) == [sh for sh in shapes if sh[3] == 'quick'][0] and (cut is None or cut == nb - 1)
            if first_quick:
                body.append('    #[kani::proof]\n    #[kani::unwind(%d)]\n%s    fn %s_u() { unsafe { UNKNOWN_LEN = UNKNOWN_YES }; check_glue(%s); }\n' % (unwind, STUBS_ALL, name, args))
            props = list(FAM_PROPS[fam])
            if fam == 'col':
                props += ['C06']
            props += ['C15', 'C12']
            covers = 2
            if n == 0:
                covers = 1 if fam in ('red', 'find') else 0
            elif fam == 'find':
                covers = None  # which of the three cover points are feasible depends on owner table and frontier: at least one
            elif n < 2:
                covers = None
            if first_quick:
                HARNESSES[name + '_u'] = dict(kernel=kernel, family='glue_' + fam, props=props, tier=t2, bounded=True,
                                              path='core::%s::vk::%s_u' % (kernel, name),
                                              shape=dict(n=n, chunk=c, owner=list(owner), workers=2, frontier=cut, unknown_len=True),
                                              covers_expected=covers, covers_min=1 if covers is None else None,
                                              bound='n=%d elements of a source of UNKNOWN length, chunk size %d, 2 workers, block->worker table %s; symbolic data and closure tables' % (n, c, list(owner)))
            HARNESSES[name] = dict(kernel=kernel, family='glue_' + fam, props=props, tier=t2, bounded=True,
                                   path='core::%s::vk::%s' % (kernel, name),
                                   shape=dict(n=n, chunk=c, owner=list(owner), workers=2, frontier=cut),
                                   covers_expected=covers, covers_min=1 if covers is None else None,
                                   bound='n=%d elements, chunk size %d, 2 workers, block->worker table %s%s; symbolic data and closure tables' % (
                                       n, c, list(owner), (', early-exit frontier after block %d' % cut) if cut is not None else ''))


def gen_kernel_module(kernel):
    k = KERNELS[kernel]
    fam = k['fam']
    shapes = FLAT_TASK_SHAPES if k['kind'] == 'FLF' else TASK_SHAPES
    # flat_map inner iterators: up to 2 elements where the inner position matters (ordered collect), up to 1 for the
    # count / reduce / find / collect_x kernels (keeps the flat_map code path, halves the CBMC cost)
    ltmax = '2' if (k['kind'] == 'FLF' and fam == 'col') else '1'
    ltnote = 'inner iterators of the symbolic flat_map closure yield at most %s element(s) in this kernel\'s harnesses' % ltmax
    body = ['', '#[cfg(kani)]', 'mod vk {', '    use super::*;', '    use crate::core::verif_kani::*;', '    use orx_pinned_vec::PinnedVec as _;', '    use crate::Params;', _fill(TASK_COMMON, ltmax=ltmax, ltnote=ltnote)]
    keyexpr = 'keys[g].0' if k.get('key', 'pos') == 'pos' else 'keys[g]'
    body.append(_fill(TASK_TEMPLATES[fam], f0=k['f0'], kind=k['kind'], keyexpr=keyexpr, maxout=('6' if (k['kind'] == 'FLF' and fam == 'col') else '3')))
    for (n, c, mine, tier) in shapes:
        if fam == 'red' and (n, c, mine) == (3, 2, (True, True)):
            tier = 'quick'  # a worker that holds a partial result and then pulls another chunk (possibly without survivors)
        # xor is associative/commutative, detects a lost or doubled survivor, and is far cheaper for SAT than add
        ops = [('Xor', tier)] if fam == 'red' else [(None, tier)]
        if fam == 'red' and (n, c, mine) == (3, 1, (True, False, True)):
            ops = [('Xor', 'quick'), ('Add', 'thorough'), ('Min', 'thorough'), ('Max', 'thorough')]
        for op, t2 in ops:
            name = 'k_task_%s_n%dc%d_m%s%s' % (kernel, n, c, _mname(mine), ('_' + op.lower()) if op else '')
            nm = sum(1 for i in range(n) if mine[i // c])
            unwind = max(n, (2 * nm) if (k['kind'] == 'FLF' and fam == 'col') else nm, 2) + 2
            call = 'check_task(%d, %d, %s%s);' % (n, c, _mask(mine), (', Op::%s' % op) if op else '')
            body.append('    #[kani::proof]\n    #[kani::unwind(%d)]\n    fn %s() { %s }\n' % (unwind, name, call))
            nmine = sum(1 for i in range(n) if mine[i // c])
            if kernel == 'flatmap_fil_col_x':
                t2 = 'thorough'
            # measured: reading back the collected (key, value) pairs of the filter_map / flat_map collect tasks sends
            # CBMC's post-processing beyond 15 GB / 10 min even for 1-3 elements (the map+filter twin takes 16-42 s);
            # these harnesses are generated but optional (thorough tier, resource limits only degrade coverage)
            if kernel in ('filtermap_fil_col', 'flatmap_fil_col') or (kernel == 'filtermap_fil_col_x' and c != 1):
                t2 = 'thorough'
            # flat_map reduce over buffered chunks (chunk.flat_map(..).filter(..).reduce(..)): > 12 min per harness
            if kernel in ('flatmap_fil_red', 'flatmap_fil_find', 'flatmap_fil_cnt') and c != 1 and n > 1:
                t2 = 'thorough'
            HARNESSES[name] = dict(kernel=kernel, family='task_' + fam, props=FAM_PROPS[fam], tier=t2,
                                   bounded=True, path='core::%s::vk::%s' % (kernel, name),
                                   shape=dict(n=n, chunk=c, blocks_of_this_worker=list(mine), op=op),
                                   covers_expected=(2 if nmine >= 1 else (1 if fam == 'find' else 0)),
                                   bound='n=%d elements, chunk size %d, worker receives blocks %s; symbolic data (u8), symbolic closure tables over a 4-value domain' % (n, c, _mname(mine)))
    if kernel in ('filtermap_fil_col', 'flatmap_fil_col'):
        body.append(_fill(TASK_COLKEYS, f0=k['f0'], kind=k['kind'], keyexpr=keyexpr, maxout=('6' if k['kind'] == 'FLF' else '3')))
        kshapes = [(3, 2, (False, True)), (2, 1, (False, True)), (2, 2, (True,))] if k['kind'] == 'FLF' else [(3, 1, (True, False, True)), (3, 2, (True, True))]
        for (n, c, mine) in kshapes:
            name = 'k_taskkeys_%s_n%dc%d_m%s' % (kernel, n, c, _mname(mine))
            nm = sum(1 for i in range(n) if mine[i // c])
            unwind = max(n, (2 * nm) if k['kind'] == 'FLF' else nm, 2) + 2
            body.append('    #[kani::proof]\n    #[kani::unwind(%d)]\n    fn %s() { check_task_keys(%d, %d, %s); }\n' % (unwind, name, n, c, _mask(mine)))
            HARNESSES[name] = dict(kernel=kernel, family='task_colkeys', props=['C01', 'C11'], tier='thorough', bounded=True,
                                   path='core::%s::vk::%s' % (kernel, name), shape=dict(n=n, chunk=c, blocks_of_this_worker=list(mine), checks='length and sort keys only'),
                                   covers_expected=(2 if (nm >= 2 or k['kind'] == 'FLF') else 1),
                                   bound='n=%d elements, chunk size %d, worker receives blocks %s; symbolic data and closure tables; only the number of results and their sort keys are compared' % (n, c, _mname(mine)))
    gen_glue(kernel, body)
    body.append('}')
    return '\n'.join(body) + '\n'



# ------------------------------------------------------------------------------------------
# API-level harnesses: the public Par trait over the model iterator (closure composition in
# src/par/*.rs, dispatch in collect_into/*.rs), parameter propagation and laziness.

# chain name -> (par chain text, std chain text, iterator type name, eager?)
CHAINS = {
    'empty': ('', '', 'ParEmpty'),
    'map': ('.map(cl.map())', '.map(c2.map())', 'ParMap'),
    'fil': ('.filter(cl.fil())', '.filter(c2.fil())', 'ParFilter'),
    'map_fil': ('.map(cl.map()).filter(cl.fil())', '.map(c2.map()).filter(c2.fil())', 'ParMapFilter'),
    'fmap': ('.filter_map(cl.fmap())', '.filter_map(c2.fmap())', 'ParFilterMap'),
    'fmap_fil': ('.filter_map(cl.fmap()).filter(cl.fil())', '.filter_map(c2.fmap()).filter(c2.fil())', 'ParFilterMapFilter'),
    'flat': ('.flat_map(cl.flat())', '.flat_map(c2.flat())', 'ParFlatMap'),
    'flat_fil': ('.flat_map(cl.flat()).filter(cl.fil())', '.flat_map(c2.flat()).filter(c2.fil())', 'ParFlatMapFilter'),
    # three-step chains through the composed closures
    'fil_map': ('.filter(cl.fil()).map(cl.map2())', '.filter(c2.fil()).map(c2.map2())', 'ParFilter::map'),
    'map_fil_map': ('.map(cl.map()).filter(cl.fil()).map(cl.map2())', '.map(c2.map()).filter(c2.fil()).map(c2.map2())', 'ParMapFilter::map'),
    'map_fil_fil': ('.map(cl.map()).filter(cl.fil()).filter(cl.fil2())', '.map(c2.map()).filter(c2.fil()).filter(c2.fil2())', 'ParMapFilter::filter'),
    'fil_fil': ('.filter(cl.fil()).filter(cl.fil2())', '.filter(c2.fil()).filter(c2.fil2())', 'ParFilter::filter'),
    'map_map': ('.map(cl.map()).map(cl.map2())', '.map(c2.map()).map(c2.map2())', 'ParMap::map'),
    'fmap_map': ('.filter_map(cl.fmap()).map(cl.map2())', '.filter_map(c2.fmap()).map(c2.map2())', 'ParFilterMap::map'),
    'fmap_fil_map': ('.filter_map(cl.fmap()).filter(cl.fil()).map(cl.map2())', '.filter_map(c2.fmap()).filter(c2.fil()).map(c2.map2())', 'ParFilterMapFilter::map'),
    'fmap_fil_fil': ('.filter_map(cl.fmap()).filter(cl.fil()).filter(cl.fil2())', '.filter_map(c2.fmap()).filter(c2.fil()).filter(c2.fil2())', 'ParFilterMapFilter::filter'),
    'map_fmap': ('.map(cl.map2()).filter_map(cl.fmap())', '.map(c2.map2()).filter_map(c2.fmap())', 'ParMap::filter_map'),
    'fil_fmap': ('.filter(cl.fil2()).filter_map(cl.fmap())', '.filter(c2.fil2()).filter_map(c2.fmap())', 'ParFilter::filter_map'),
    'flat_map': ('.flat_map(cl.flat()).map(cl.map2())', '.flat_map(c2.flat()).map(c2.map2())', 'ParFlatMap::map'),
    'flat_fil_fil': ('.flat_map(cl.flat()).filter(cl.fil()).filter(cl.fil2())', '.flat_map(c2.flat()).filter(c2.fil()).filter(c2.fil2())', 'ParFlatMapFilter::filter'),
    # the remaining lazy composition sites of src/par/*.rs (the eight eager ones are the k_order_* / k_lazy_* family)
    'map_flat': ('.map(cl.map2()).flat_map(cl.flat())', '.map(c2.map2()).flat_map(c2.flat())', 'ParMap::flat_map'),
    'map_fil_fmap': ('.map(cl.map()).filter(cl.fil()).filter_map(cl.fmap())', '.map(c2.map()).filter(c2.fil()).filter_map(c2.fmap())', 'ParMapFilter::filter_map'),
    'fmap_fmap': ('.filter_map(cl.fmap()).filter_map(cl.fmap())', '.filter_map(c2.fmap()).filter_map(c2.fmap())', 'ParFilterMap::filter_map'),
    'fmap_fil_fmap': ('.filter_map(cl.fmap()).filter(cl.fil()).filter_map(cl.fmap())', '.filter_map(c2.fmap()).filter(c2.fil()).filter_map(c2.fmap())', 'ParFilterMapFilter::filter_map'),
    'flat_flat': ('.flat_map(cl.flat()).flat_map(cl.flat())', '.flat_map(c2.flat()).flat_map(c2.flat())', 'ParFlatMap::flat_map'),
}

# terminal name -> (par expr template using {P}, std expr using {S}, comparison kind, props)
TERMINALS = {
    'collect_vec': ('{P}.collect_vec()', '{S}.collect::<Vec<E>>()', 'seq', ['C01']),
    'collect': ('{P}.collect()', '{S}.collect::<Vec<E>>()', 'pinned', ['C01']),
    'collect_x': ('{P}.collect_x()', '{S}.collect::<Vec<E>>()', 'multiset', ['C07']),
    'count': ('{P}.count()', '{S}.count()', 'eq', ['C04']),
    'reduce': ('{P}.reduce(red(&log, Op::Xor))', '{S}.reduce(red(&log2, Op::Xor))', 'optv', ['C03']),
    'fold': ('{P}.fold(|| E { p: 99, v: 0 }, red(&log, Op::Xor))', '{S}.fold(None, |a: Option<E>, b| match a { None => Some(b), Some(a) => Some(red(&log2, Op::Xor)(a, b)) }).unwrap_or(E { p: 99, v: 0 })', 'v', ['C03']),
    'find': ('{P}.find(cl.pred())', '{S}.find(c2.pred())', 'opt', ['C02']),
    'first': ('{P}.first()', '{S}.next()', 'opt', ['C02']),
    'any': ('{P}.any(cl.pred())', '{S}.any(|e| c2.pred()(&e))', 'eq', ['C02']),
    'all': ('{P}.all(cl.pred())', '{S}.all(|e| c2.pred()(&e))', 'eq', ['C02']),
    'for_each': ('{P}.for_each(cl.each())', '{S}.for_each(c2.each())', 'unit', ['C04']),
    # non-injective key (v >> 1): ties between distinguishable elements are possible. Parallel: any extremal element
    # is allowed (C03); sequential mode: exactly std's choice (C09: first minimum, LAST maximum)
    'min_by_key': ('{P}.min_by_key(|e: &E| e.v >> 1)', '{S}.min_by_key(|e: &E| e.v >> 1)', 'optkey2', ['C03']),
    'max_by_key': ('{P}.max_by_key(|e: &E| e.v >> 1)', '{S}.max_by_key(|e: &E| e.v >> 1)', 'optkey2', ['C03']),
    'min_by': ('{P}.min_by(|a: &E, b: &E| (a.v >> 1).cmp(&(b.v >> 1)))', '{S}.min_by(|a: &E, b: &E| (a.v >> 1).cmp(&(b.v >> 1)))', 'optkey2', ['C03']),
    'max_by': ('{P}.max_by(|a: &E, b: &E| (a.v >> 1).cmp(&(b.v >> 1)))', '{S}.max_by(|a: &E, b: &E| (a.v >> 1).cmp(&(b.v >> 1)))', 'optkey2', ['C03']),
    'sum': ('{P}.map(|e: E| (e.v as u32)).sum()', '{S}.map(|e: E| (e.v as u32)).sum::<u32>()', 'eq', ['C03']),
    'min': ('{P}.map(|e: E| e.v).min()', '{S}.map(|e: E| e.v).min()', 'eq', ['C03']),
    'max': ('{P}.map(|e: E| e.v).max()', '{S}.map(|e: E| e.v).max()', 'eq', ['C03']),
}

TERMINALS.update({
    'into_vec': ('{P}.collect_into(vec_with(pre))', '{S}.collect::<Vec<E>>()', 'seq_pre', ['C06']),
    'into_split': ('{P}.collect_into(split_with(pre))', '{S}.collect::<Vec<E>>()', 'pinned_pre', ['C06']),
    'into_fixed': ('{P}.collect_into(fixed_with(pre))', '{S}.collect::<Vec<E>>()', 'fixed_pre', ['C06']),
    # SplitVec target whose existing contents already fill its maximum concurrent capacity
    'into_split_full': ('{P}.collect_into(split_full(pre))', '{S}.collect::<Vec<E>>()', 'pinned_pre2', ['C06']),
})

SHORT = ('find', 'first', 'any', 'all')

CMP = {
    'seq': """
        assert!(got.len() == exp.len(), "{PR}: wrong number of elements");
        let mut j = 0;
        while j < exp.len() {
            assert!(got[j] == exp[j], "{PR}: sequence differs from the std iterator chain");
            j += 1;
        }""",
    'pinned': """
        assert!(got.len() == exp.len(), "{PR}: wrong number of elements");
        let mut j = 0;
        for frag in got.fragments() {
            for x in frag.iter() {
                assert!(*x == exp[j], "{PR}: sequence differs from the std iterator chain");
                j += 1;
            }
        }""",
    'multiset': """
        let mut flat = [E { p: 0, v: 0 }; 8];
        let mut total = 0;
        for frag in got.fragments() {
            for x in frag.iter() {
                assert!(total < 8);
                flat[total] = *x;
                total += 1;
            }
        }
        assert!(total == exp.len(), "C07: wrong number of elements");
        let mut used = [false; 8];
        let mut j = 0;
        while j < exp.len() {
            let mut found = false;
            let mut g = 0;
            while g < total {
                if !found && !used[g] && flat[g] == exp[j] {
                    used[g] = true;
                    found = true;
                }
                g += 1;
            }
            assert!(found, "C07: an element of the sequential result is missing");
            j += 1;
        }""",
    'seq_pre': """
        assert!(got.len() == exp.len() + 1, "{PR}: wrong number of elements");
        assert!(got[0] == pre, "{PR}: the existing contents of the target were disturbed");
        let mut j = 0;
        while j < exp.len() {
            assert!(got[j + 1] == exp[j], "{PR}: appended sequence differs from collect_vec");
            j += 1;
        }""",
    'fixed_pre': """
        assert!(got.len() == exp.len() + 1, "{PR}: wrong number of elements");
        assert!(got[0] == pre, "{PR}: the existing contents of the target were disturbed");
        let mut j = 0;
        while j < exp.len() {
            assert!(got[j + 1] == exp[j], "{PR}: appended sequence differs from collect_vec");
            j += 1;
        }""",
    'pinned_pre': """
        assert!(got.len() == exp.len() + 1, "{PR}: wrong number of elements");
        let mut j = 0;
        for frag in got.fragments() {
            for x in frag.iter() {
                if j == 0 {
                    assert!(*x == pre, "{PR}: the existing contents of the target were disturbed");
                } else {
                    assert!(*x == exp[j - 1], "{PR}: appended sequence differs from collect_vec");
                }
                j += 1;
            }
        }""",
    'pinned_pre2': """
        assert!(got.len() == exp.len() + 2, "{PR}: wrong number of elements");
        let mut j = 0;
        for frag in got.fragments() {
            for x in frag.iter() {
                if j < 2 {
                    assert!(*x == pre, "{PR}: the existing contents of the target were disturbed");
                } else {
                    assert!(*x == exp[j - 2], "{PR}: appended sequence differs from collect_vec");
                }
                j += 1;
            }
        }""",
    'eq': """
        assert!(got == exp, "{PR}: result differs from the std iterator chain");""",
    'unit': """
        let _ = (got, exp);""",
    'opt': """
        assert!(got == exp, "{PR}: result differs from the std iterator chain (first match in source order)");""",
    'optv': """
        assert!(got.is_some() == exp.is_some(), "{PR}: None-ness differs from the sequential fold");
        if let (Some(g), Some(e)) = (got, exp) {
            assert!(g.v == e.v, "{PR}: value differs from the sequential fold");
        }""",
    'v': """
        assert!(got.v == exp.v, "{PR}: value differs from the sequential fold");""",
    'optkey2': """
        assert!(got.is_some() == exp.is_some(), "{PR}: None-ness differs");
        if let (Some(g), Some(e)) = (got, exp) {
            assert!((g.v >> 1) == (e.v >> 1), "{PR}: result is not extremal");
        }""",
    'optkey': """
        assert!(got.is_some() == exp.is_some(), "{PR}: None-ness differs");
        if let (Some(g), Some(e)) = (got, exp) {
            assert!(g.v == e.v, "{PR}: result is not extremal");
        }""",
}

API_PRELUDE = """//! GENERATED (tools/kani_gen.py): API-level harnesses over the model iterator.
use super::*;
use crate::par::par_empty::ParEmpty;
use crate::{ChunkSize, NumThreads, Par, Params};
use orx_pinned_vec::PinnedVec as _;

/// the computation under test starts from the model source with explicit parameters
pub fn source<'a>(it: ModelIter<'a>, params: Params) -> ParEmpty<ModelIter<'a>> {
    let p = ParEmpty::new(it);
    let p = match params.num_threads {
        NumThreads::Auto => p.num_threads(0),
        NumThreads::Max(n) => p.num_threads(n.get()),
    };
    match params.chunk_size {
        ChunkSize::Auto => p.chunk_size(0),
        ChunkSize::Exact(c) => p.chunk_size(c.get()),
        ChunkSize::Min(c) => p.chunk_size(ChunkSize::Min(c)),
    }
}
"""

# (mode, n, c, owner, tier): par2 = two workers through the Runner/merge contracts; seq = num_threads(1)
API_SHAPES = {
    'par2': [(3, 1, (1, 0, 1), 'quick'), (3, 2, (1, 0), 'thorough'), (2, 4, (1,), 'thorough')],
    'seq': [(3, 1, (0, 0, 0), 'quick')],
}
API_SHAPES_FLAT = {
    'par2': [(2, 1, (1, 0), 'quick'), (2, 2, (1,), 'thorough')],
    'seq': [(2, 1, (0, 0), 'quick')],
}

# which (chain, terminal) pairs are in the quick tier (the rest is thorough)
QUICK_API = {
    # (chain, terminal): measured < ~130 s per harness in both modes
    ('empty', 'collect_vec'), ('fil', 'collect_vec'), ('fmap', 'collect_vec'), ('map_fil', 'collect_vec'), ('map', 'collect_x'), ('fil', 'collect_x'),
    ('empty', 'count'), ('map_fil', 'count'), ('fil', 'for_each'),
    ('map_fil', 'reduce'), ('fil', 'fold'), ('map', 'min_by_key'), ('map_fil', 'sum'),
    ('map_fil', 'find'), ('fil', 'first'), ('map', 'any'), ('fmap_fil', 'all'), ('empty', 'find'), ('fil_fil', 'find'),
    ('map_fil_fil', 'count'), ('fil_fil', 'count'), ('fmap_fil_fil', 'count'), ('flat_fil_fil', 'count'), ('fil_map', 'count'), ('map_fil_map', 'count'),
}
# sequential-mode only additions (cheap there, intractable with two workers + merge contract)
QUICK_API_SEQ = {('map', 'max_by_key'), ('fil', 'max_by'), ('flat', 'reduce'), ('flat_fil_fil', 'count'), ('fmap_fil', 'count'), ('fmap_fil', 'max'),
                 # every lazy composition site of src/par/*.rs at least once in the quick tier (sequential mode: values through count,
                 # closure-call multiset and call sequence against the std chain)
                 ('map_map', 'count'), ('fmap_map', 'count'), ('fmap_fil_map', 'count'), ('map_fmap', 'count'), ('fil_fmap', 'count'), ('flat_map', 'count'),
                 ('map_flat', 'count'), ('map_fil_fmap', 'count'), ('fmap_fmap', 'count'), ('fmap_fil_fmap', 'count'), ('flat_flat', 'count'),
                 ('empty', 'collect'),
                 # every provided reduce-family method of src/par_iter.rs at least once in sequential mode
                 ('fil', 'min_by'), ('map', 'min')}
# composition sites: in sequential mode every composed (three-step) chain is observed through count (number of survivors, closure-call
# multiset and call sequence) and through reduce with a non-commutative operator (values and their order)
QUICK_API_SEQ |= {(c, t) for c in CHAINS if c not in ('empty', 'map', 'fil', 'map_fil', 'fmap', 'fmap_fil', 'flat', 'flat_fil') for t in ('count', 'reduce')}
# ... except reduce over the flat_map compositions (300-550 s each): thorough only
QUICK_API_SEQ -= {('flat_map', 'reduce'), ('flat_fil_fil', 'reduce'), ('flat_flat', 'reduce')}
# the pipeline properties whose statements quantify over every chain: a wrong composition breaks each of them
PIPELINE_PROPS = ['C01', 'C02', 'C03', 'C04', 'C07']
# sequential collect_vec of map+filter style chains: 150-260 s when it works, and one run of the same harness grew to
# 50 GB: optional (thorough) only
SEQ_HEAVY = {('map_fil', 'collect_vec'), ('fmap', 'collect_vec'), ('fil_map', 'collect_vec'), ('map_fil_fil', 'collect_vec'), ('map_fil_map', 'collect_vec')}
# combinations whose CBMC run exceeds 20 GB / 10 min even on 2 elements: never scheduled, reported as not covered
INTRACTABLE = {
    ('par2', 'fil_map', 'collect_vec'), ('par2', 'map_fil_fil', 'collect_vec'), ('par2', 'map_fil_map', 'collect_vec'),
    ('par2', 'fmap_fil', 'collect'), ('seq', 'fmap_fil', 'collect'), ('seq', 'map', 'collect_x'), ('seq', 'map_fil', 'collect_x'),
    ('par2', 'flat_fil', 'collect_vec'), ('seq', 'flat_fil', 'collect_vec'),
    ('seq', 'fil', 'collect'),  # > 16 GB (SplitVec fragments + filter)
    ('seq', 'flat_flat', 'reduce'),  # > 16 GB
    ('seq', 'map', 'into_split_full'), ('seq', 'map_fil', 'into_split_full'), ('seq', 'empty', 'into_split_full'),  # 57 GB
    ('par2', 'map', 'into_split_full'), ('par2', 'empty', 'into_split_full'),  # > 16 GB
}
# thorough tier: every chain with collect_vec, the eight base chains with every terminal
BASE_CHAINS = ('empty', 'map', 'fil', 'map_fil', 'fmap', 'fmap_fil', 'flat', 'flat_fil')


def gen_api():
    out = [API_PRELUDE]
    for chain, (pc, sc, typ) in CHAINS.items():
        flat = 'flat' in chain
        for term, (pe, se, cmpk, tprops) in TERMINALS.items():
            for mode in ('par2', 'seq', 'par2u', 'sequ'):
                unknown = mode.endswith('u')
                # unknown length + map-only goes through a 32-fragment SplitVec (unwind > 32): beyond CBMC, not scheduled
                if unknown and not (term.startswith('into_') and chain in ('map_fil',)):
                    continue
                if term.startswith('into_') and chain not in ('map', 'empty', 'map_fil', 'fmap_fil', 'flat_fil'):
                    continue
                shapes = (API_SHAPES_FLAT if flat else API_SHAPES)['par2' if mode.startswith('par2') else 'seq']
                if term.startswith('into_'):
                    shapes = [(2, 1, (1, 0), 'quick')] if mode.startswith('par2') else [(2, 1, (0, 0), 'quick')]
                if mode == 'par2' and term in ('collect_vec', 'collect', 'collect_x') and not flat:
                    shapes = [(2, 1, (1, 0), 'quick'), (3, 1, (1, 0, 1), 'thorough')]
                for (n, c, owner, tier) in shapes:
                    if (mode, chain, term) in INTRACTABLE or (mode == 'seq' and term == 'collect_x'):
                        continue  # (sequential collect_x converts through two SplitVec growth strategies: > 16 GB)
                    # composed-closure chains: collect_vec (order) and count (cheapest must-visit terminal, for the call logs)
                    # plus, for the composed chains: collect_x with two workers (C07), find and reduce in sequential mode (C02, C03/C09)
                    if not (term in ('collect_vec', 'count') or chain in BASE_CHAINS
                            or (term == 'collect_x' and mode == 'par2') or (term in ('find', 'reduce') and mode == 'seq')):
                        continue
                    if term.startswith('into_'):
                        tier = 'quick' if (chain, term) in (('map', 'into_vec'), ('map_fil', 'into_vec'), ('map', 'into_split_full')) else 'thorough'
                    t2 = tier if ((chain, term) in QUICK_API or (mode == 'seq' and (chain, term) in QUICK_API_SEQ) or term.startswith('into_')) else 'thorough'
                    if flat and term in ('collect_x',):
                        t2 = 'thorough'
                    if mode == 'seq' and (chain, term) in SEQ_HEAVY:
                        t2 = 'thorough'
                    name = 'k_api_%s_%s_%s_n%dc%d_o%s' % (mode, chain, term, n, c, ''.join(str(x) for x in owner))
                    pr = tprops[0]
                    if mode == 'seq' and term == 'collect':
                        pr = 'C01,C07'  # sequential collect_x is `SplitVec::from(self.collect())`: the ordered collect carries it
                    composition_site = mode == 'seq' and chain not in BASE_CHAINS and term in ('count', 'reduce')
                    if composition_site:
                        # the chain differs from its base chain only in the closure composed by the transformation site `typ`
                        pr = ','.join(sorted(set(PIPELINE_PROPS + [pr])))
                    par = mode.startswith('par2')
                    stubs = STUBS_ALL if par else FORBID_ALL
                    if par and term in ('collect_vec', 'collect') or term.startswith('into_'):
                        stubs = stubs + FORBID_COLX
                    workers = 2 if par else 1
                    params = 'par_params(2, %d)' % c if par else 'seq_params()'
                    body = []
                    unw = max(n, 2 * n if flat else n, 2) + 2
                    if chain in ('map', 'empty', 'map_map') and (term in ('collect_vec', 'collect', 'collect_x') or term.startswith('into_')):
                        unw = 10  # ordered-bag path: mem::swap of the pinned-vector structs loops over their bytes
                    if unknown and chain in ('map', 'empty'):
                        unw = 36  # unknown length: SplitVec with 32 fragments capacity is converted fragment by fragment
                    body.append('#[kani::proof]\n#[kani::unwind(%d)]\n%sfn %s() {' % (unw, stubs.replace('    #[', '#['), name))
                    body.append('    let log = Log::new();')
                    body.append('    let log2 = Log::new();')
                    body.append('    let (%sit, data) = multi_worker_iter(&log, %d, %d, %s, %d);' % ('mut ' if unknown else '', n, c, _owner(owner), workers))
                    if unknown:
                        body.append('    it.known_len = false;')
                    body.append('    let pre = E { p: 77, v: kani::any() };')
                    body.append('    let cl = Cl::any(&log);')
                    body.append('    let c2 = cl.with_log(&log2);')
                    body.append('    let params = %s;' % params)
                    if not par:
                        # order-sensitive: in sequential mode reduce/fold must be the left-to-right fold (C09)
                        pe = pe.replace('Op::Xor', 'Op::Sub')
                        se = se.replace('Op::Xor', 'Op::Sub')
                    body.append('    let got = %s;' % pe.replace('{P}', 'source(it, params)' + pc))
                    body.append('    let exp = %s;' % se.replace('{S}', 'src_iter(data, %d)' % n + sc))
                    if cmpk == 'optkey2' and not par:
                        body.append('    assert!(got == exp, "C09: in sequential mode min_by/max_by(_key) must pick the same element as the std iterator (first minimum, last maximum)");')
                    body.append(CMP[cmpk].replace('{PR}', pr).replace('\n        ', '\n    '))
                    if not par and term not in SHORT and term not in ('reduce', 'fold'):
                        body.append('    assert!(same_call_multiset(&log, &log2), "C05: the multiset of (stage, argument) closure calls differs from the sequential chain");')
                    if not par:
                        body.append('    assert!(same_call_sequence(&log, &log2), "C09: in sequential mode the closures must see exactly the call sequence of the std iterator chain");')
                        body.append('    assert!(log.pulls.get() == 0, "C08: sequential mode must not pull through the concurrent interface");')
                    elif term in SHORT:
                        lim = 2 if flat else 1
                        body.append('    assert!(log.max_calls(ST_MAP) <= 1, "C05: first-stage closure called twice on one element");')
                        body.append('    assert!(log.max_calls(ST_FIL) <= %d && log.max_calls(ST_X) <= %d && log.max_calls(ST_P) <= %d, "C05: a closure of the chain was called more than once per element");' % (lim, lim, lim))
                    elif term in ('reduce', 'fold'):
                        body.append('    assert!(same_stage(&log, &log2, ST_MAP) && same_stage(&log, &log2, ST_FIL) && same_stage(&log, &log2, ST_X), "C05: the multiset of (stage, argument) closure calls differs from the sequential chain");')
                        body.append('    assert!(log.total(ST_P) == log2.total(ST_P), "C03: the operator was not applied survivors - 1 times");')
                    else:
                        body.append('    assert!(same_call_multiset(&log, &log2), "C05: the multiset of (stage, argument) closure calls differs from the sequential chain");')
                    if par:
                        body.append('    assert!(!log.bad_pull_size.get(), "C11: a pull did not request the chunk size handed to the worker");')
                    body.append('    kani::cover!(log.total(ST_MAP) + log.total(ST_FIL) + log.total(ST_P) + log.total(ST_X) >= 1 || %s);' % ('true' if chain == 'empty' else 'false'))
                    body.append('}\n')
                    out.append('\n'.join(body))
                    props = list(tprops) + ['C05']
                    if mode == 'seq' and term == 'collect':
                        props += ['C07']
                    if composition_site:
                        props = sorted(set(props + PIPELINE_PROPS))
                    if not par:
                        props += ['C09', 'C08']
                    else:
                        props += ['C11', 'C15']
                    if term in SHORT:
                        props += ['C10']
                    HARNESSES[name] = dict(kernel='api', family='api_' + mode, props=props, tier=t2, bounded=True,
                                           path='core::verif_kani::h_api::%s' % name,
                                           shape=dict(chain=chain, terminal=term, mode=mode, n=n, chunk=c, owner=list(owner), type=typ),
                                           covers_expected=1,
                                           bound='public API chain `%s` -> %s, %s, n=%d, chunk %d, owner %s; symbolic data, closure tables%s' % (
                                               chain, term, ('two workers via Runner/merge contracts' if par else 'num_threads(1) with symbolic chunk_size') + (', source of unknown length' if unknown else ''), n, c, list(owner),
                                               ''))
    return '\n'.join(out)



# ------------------------------------------------------------------------------------------
# C12 / C16: every transformation and setter of the eight iterator types keeps params() and
# runs no closure / pulls nothing.

LAZY_METHODS = {
    'map': '.map(cl.map2())',
    'filter': '.filter(cl.fil2())',
    'flat_map': '.flat_map(cl.flat())',
    'filter_map': '.filter_map(cl.fmap())',
}

EAGER_SITES = {('fil', 'flat_map'), ('map_fil', 'flat_map'), ('fmap', 'flat_map'), ('fmap_fil', 'flat_map'),
               ('flat', 'filter_map'), ('flat_fil', 'map'), ('flat_fil', 'flat_map'), ('flat_fil', 'filter_map')}


# eager sites whose materialisation (flat_map kernels under symbolic Params) exceeds CBMC's capacity: not scheduled
LAZY_INTRACTABLE = set()
# ... unless the source is empty: these four eager sites are run over an empty source (params and "pulled from the source" are still observed)
LAZY_EMPTY_SOURCE = {('flat_fil', 'map'), ('flat_fil', 'flat_map'), ('flat_fil', 'filter_map'), ('fmap_fil', 'flat_map'), ('flat', 'filter_map')}


def gen_lazy():
    out = ["""//! GENERATED (tools/kani_gen.py): parameter propagation (C12) and laziness (C16) per transformation site.
use super::*;
use super::h_api::source;
use crate::{ChunkSize, NumThreads, Par, Params};
"""]
    for chain in BASE_CHAINS:
        pc, sc, typ = CHAINS[chain]
        for meth, call in LAZY_METHODS.items():
            eager = (chain, meth) in EAGER_SITES
            name = 'k_lazy_%s_%s' % (chain, meth)
            b = []
            b.append('#[kani::proof]\n#[kani::unwind(%d)]\n%sfn %s() {' % (10 if eager else 4, (STUBS_ALL + FORBID_COLX).replace('    #[', '#['), name))
            b.append('    let log = Log::new();')
            if eager and (chain, meth) in LAZY_EMPTY_SOURCE:
                b.append('    // eager materialisation over an EMPTY source: the kernels run (and pull once), no data flows')
                b.append('    let (it, data) = multi_worker_iter(&log, 0, 1, [0, 0, 0, 0], 1);')
            elif eager:
                b.append('    let (it, data) = multi_worker_iter(&log, 1, 1, [0, 0, 0, 0], 1);')
            else:
                b.append('    let (it, data) = multi_worker_iter(&log, 2, 1, [1, 0, 0, 0], 2);')
            b.append('    let cl = Cl::any(&log);')
            if eager and chain.startswith('flat'):
                b.append('    // the eager materialisation of a flat_map pipeline is beyond CBMC; empty inner iterators keep the')
                b.append('    // closure CALLS (what C16 observes) and drop the data flow')
                b.append('    kani::assume(cl.lt[0] == 0 && cl.lt[1] == 0 && cl.lt[2] == 0 && cl.lt[3] == 0);')
            b.append('    let p0 = any_params();')
            b.append('    let x = source(it, p0)%s;' % pc)
            b.append('    assert!(x.params() == p0, "C08,C09,C12,C16: params() does not report the values set on the source after building %s");' % typ)
            b.append('    let y = x%s;' % call)
            b.append('    assert!(y.params() == p0, "C08,C09,C12,C16: %s::%s altered the parameters");' % (typ, meth))
            b.append('    assert!(!log.any_call() && log.source_untouched(), "C16: %s::%s ran a user closure or consumed the source before the terminal call");' % (typ, meth))
            b.append('    kani::cover!(p0.num_threads != NumThreads::Auto && p0.chunk_size != ChunkSize::Auto);')
            b.append('}\n')
            out.append('\n'.join(b))
            if (chain, meth) in LAZY_INTRACTABLE:
                out.pop()
                continue
            HARNESSES[name] = dict(kernel='api', family='lazy', props=['C12', 'C16'] + (['C08', 'C09'] if eager else []), tier='quick', bounded=eager,
                                   path='core::verif_kani::h_lazy::%s' % name, shape=dict(type=typ, method=meth, eager_site=eager),
                                   covers_expected=1 if not eager else None, covers_min=0 if eager else None,
                                   bound=('loop-free: fully symbolic Params, any source contents' if not eager else
                                          ('eager site (materialises with collect_vec): empty source, 1 worker, symbolic Params' if (chain, meth) in LAZY_EMPTY_SOURCE else 'eager site (materialises with collect_vec): 1 source element, 1 worker, symbolic Params')))
        # eager sites, parallel parameters: the materialisation inside the transformation must be the ORDERED collect
        # (the three unordered collect_x kernels are replaced by assert!(false)); empty source, so no data flows
        for meth, call in LAZY_METHODS.items():
            if (chain, meth) not in EAGER_SITES:
                continue
            name = 'k_order_%s_%s' % (chain, meth)
            b = []
            b.append('#[kani::proof]\n#[kani::unwind(10)]\n%sfn %s() {' % ((STUBS_ALL + FORBID_COLX).replace('    #[', '#['), name))
            b.append('    let log = Log::new();')
            b.append('    let (it, data) = multi_worker_iter(&log, 0, 1, [0, 0, 0, 0], 1);')
            b.append('    let cl = Cl::any(&log);')
            b.append('    let p0 = par_params(2, 1);')
            b.append('    let y = source(it, p0)%s%s;' % (pc, call))
            b.append('    assert!(y.params() == p0, "C08,C09,C12,C16: %s::%s altered the parameters");' % (typ, meth))
            b.append('    kani::cover!(log.pulls.get() >= 1);')
            b.append('}\n')
            out.append('\n'.join(b))
            HARNESSES[name] = dict(kernel='api', family='order', props=['C01', 'C02', 'C12', 'C08', 'C09'], tier='quick', bounded=True,
                                   path='core::verif_kani::h_lazy::%s' % name, shape=dict(type=typ, method=meth, eager_site=True, params='Max(2), Exact(1)'),
                                   covers_expected=1,
                                   bound='eager site over an empty source with parallel parameters: which collect kernel the materialisation goes through')
        for meth in ('num_threads', 'chunk_size'):
            name = 'k_lazy_%s_%s' % (chain, meth)
            b = []
            b.append('#[kani::proof]\n#[kani::unwind(4)]\n%sfn %s() {' % (STUBS_ALL.replace('    #[', '#['), name))
            b.append('    let log = Log::new();')
            b.append('    let (it, data) = multi_worker_iter(&log, 2, 1, [1, 0, 0, 0], 2);')
            b.append('    let cl = Cl::any(&log);')
            b.append('    let p0 = any_params();')
            b.append('    let a: usize = kani::any();')
            b.append('    let y = source(it, p0)%s.%s(a);' % (pc, meth))
            if meth == 'num_threads':
                b.append('    let want = if a == 0 { NumThreads::Auto } else { NumThreads::Max(nz(a)) };')
                b.append('    assert!(y.params().num_threads == want, "C12,C16: %s::num_threads(n) must report Auto for 0 and Max(n) otherwise");' % typ)
                b.append('    assert!(y.params().chunk_size == p0.chunk_size, "C12,C16: %s::num_threads changed chunk_size");' % typ)
            else:
                b.append('    let want = if a == 0 { ChunkSize::Auto } else { ChunkSize::Exact(nz(a)) };')
                b.append('    assert!(y.params().chunk_size == want, "C12,C16: %s::chunk_size(c) must report Auto for 0 and Exact(c) otherwise");' % typ)
                b.append('    assert!(y.params().num_threads == p0.num_threads, "C12,C16: %s::chunk_size changed num_threads");' % typ)
            b.append('    assert!(y.params().is_sequential() == (y.params().num_threads == NumThreads::Max(nz(1))), "C12: is_sequential() must hold exactly for Max(1)");')
            b.append('    assert!(!log.any_call() && log.source_untouched(), "C16: %s::%s ran a user closure or consumed the source");' % (typ, meth))
            b.append('    kani::cover!(a == 0);')
            b.append('    kani::cover!(a > 1);')
            b.append('}\n')
            out.append('\n'.join(b))
            HARNESSES[name] = dict(kernel='api', family='lazy', props=['C12', 'C16'], tier='quick', bounded=False,
                                   path='core::verif_kani::h_lazy::%s' % name, shape=dict(type=typ, method=meth),
                                   covers_expected=2, bound='loop-free: fully symbolic Params and argument')
    # building a computation from an iterator source consumes nothing
    out.append("""
struct CountingIter<'a> { log: &'a Log, i: u8 }
impl Iterator for CountingIter<'_> {
    type Item = u8;
    fn next(&mut self) -> Option<u8> {
        self.log.seq_next_calls.set(self.log.seq_next_calls.get() + 1);
        if self.i < 2 { self.i += 1; Some(self.i) } else { None }
    }
}

#[kani::proof]
#[kani::unwind(4)]
fn k_lazy_src_iter_par() {
    use crate::IterIntoPar;
    let log = Log::new();
    let p = CountingIter { log: &log, i: 0 }.par();
    let a: usize = kani::any();
    let b: usize = kani::any();
    let p = p.num_threads(a).chunk_size(b);
    let q = p.map(|x: u8| { x });
    assert!(log.seq_next_calls.get() == 0, "C16: building a computation over an iterator source advanced the iterator");
    kani::cover!(a > 1 && b > 1);
}
""")
    out.append("""
/// C12 (defaults): every way of building a computation from a source starts with Auto/Auto.
#[kani::proof]
#[kani::unwind(4)]
fn k_lazy_src_defaults() {
    use crate::{AsPar, IntoPar, IterIntoPar};
    let d = Params { num_threads: NumThreads::Auto, chunk_size: ChunkSize::Auto };
    let v: Vec<u8> = Vec::new();
    assert!(v.par().params() == d, "C12: Vec::par() does not start with the default parameters Auto/Auto");
    let s: &[u8] = &v;
    assert!(s.par().params() == d, "C12: slice par() does not start with the default parameters Auto/Auto");
    assert!(s.into_par().params() == d, "C12: slice into_par() does not start with the default parameters Auto/Auto");
    let lo: usize = kani::any();
    kani::assume(lo < 100);
    assert!((lo..lo + 2).into_par().params() == d, "C12: Range::into_par() does not start with the default parameters Auto/Auto");
    let w: Vec<u8> = Vec::new();
    assert!(w.into_par().params() == d, "C12: Vec::into_par() does not start with the default parameters Auto/Auto");
    let u: Vec<u8> = Vec::new();
    assert!(u.into_iter().filter(|_| true).par().params() == d, "C12: Iterator::par() does not start with the default parameters Auto/Auto");
    kani::cover!(lo > 0);
}
""")
    HARNESSES['k_lazy_src_defaults'] = dict(kernel='api', family='lazy', props=['C12'], tier='quick', bounded=False,
                                            path='core::verif_kani::h_lazy::k_lazy_src_defaults', shape=dict(source='Vec / slice / Range / Iterator'),
                                            covers_expected=1, bound='loop-free: sources of five kinds, params() right after construction')
    HARNESSES['k_lazy_src_iter_par'] = dict(kernel='api', family='lazy', props=['C16'], tier='quick', bounded=False,
                                            path='core::verif_kani::h_lazy::k_lazy_src_iter_par', shape=dict(source='Iterator::par()'),
                                            covers_expected=1, bound='loop-free: any parameters')
    return '\n'.join(out)


def generate_all():
    """returns dict relpath -> text to append (kernel files) / to create (toolkit handled by caller)"""
    HARNESSES.clear()
    out = {}
    for kernel in KERNELS:
        out['src/core/%s.rs' % kernel] = gen_kernel_module(kernel)
    out['+src/core/verif_kani/h_api.rs'] = gen_api()
    out['+src/core/verif_kani/h_lazy.rs'] = gen_lazy()
    import os
    static = os.path.join(os.path.dirname(os.path.dirname(os.path.abspath(__file__))), 'kani', 'static')
    out['+src/core/verif_kani/h_drop.rs'] = open(os.path.join(static, 'h_drop.rs')).read()
    out['+src/core/verif_kani/h_dep.rs'] = open(os.path.join(static, 'h_dep.rs')).read()
    out['+src/core/verif_kani/h_src.rs'] = open(os.path.join(static, 'h_src.rs')).read()
    for nm in ('k_src_vec_into_par', 'k_src_vec_par_copied', 'k_src_slice_par_cloned', 'k_src_iter_par', 'k_src_range_into_par'):
        HARNESSES[nm] = dict(kernel='api', family='src', props=['C01', 'C02', 'C03', 'C04'], tier='quick', bounded=True,
                             path='core::verif_kani::h_src::%s' % nm, shape=dict(source=nm[6:], elements=3, workers=1),
                             covers_expected=None, covers_min=0,
                             bound='real dependency source of 3 symbolic elements, one worker via the Runner contract, terminals count / xor-reduce / first')
    for nm in ('k_src_vecdeque_wrapped_par', 'k_src_linkedlist_par', 'k_src_binaryheap_par'):
        HARNESSES[nm] = dict(kernel='api', family='src', props=['C01', 'C02', 'C03', 'C04'], tier='quick', bounded=True,
                             path='core::verif_kani::h_src::%s' % nm, shape=dict(source=nm[6:], elements=3, workers=1),
                             covers_expected=1,
                             bound='real std collection of 3 symbolic elements (VecDeque with a wrapped buffer), real ConIterOfIter, one worker via the Runner contract, terminals count / xor-reduce / first against the collection\'s own iterator')
    for nm in ('k_merge_real_one_vector_prefix_vec', 'k_merge_real_two_vectors_prefix_vec', 'k_merge_real_one_vector_prefix_pinned', 'k_merge_real_two_vectors_prefix_pinned'):
        # (the SplitVec variants take ~200 s alone and went beyond 16 GB under load: optional)
        HARNESSES[nm] = dict(kernel='merge', family='merge', props=['C01', 'C06'], tier=('thorough' if nm.endswith('_pinned') else 'quick'), bounded=True,
                             path='core::verif_kani::h_drop::%s' % nm, shape=dict(vectors=(1 if 'one_vector' in nm else 2), prefix=1, elements=2),
                             covers_expected=None, covers_min=0,
                             bound='the REAL merge function (no stub): %s worker vector(s), 2 keyed elements with symbolic values, output holding 1 previous element' % ('one' if 'one_vector' in nm else 'two'))
    for nm in ('k_dep_vec_protocol', 'k_dep_vec_skip', 'k_dep_iter_protocol', 'k_dep_iter_skip'):
        HARNESSES[nm] = dict(kernel='dependency', family='dep', props=['C01', 'C02', 'C05', 'C10', 'C11'], tier='quick', bounded=True,
                             path='core::verif_kani::h_dep::%s' % nm, shape=dict(source='real ConIterOfVec / ConIterOfIter, 3 elements, one thread'),
                             covers_expected=None, covers_min=0,
                             bound='T1 conformance of the REAL dependency, sequential only: 3 symbolic elements, pulls of size 1 and 2, skip_to_end')
    for rel, fname, mod, names in (
            ('src/core/runner_settings/chunk_size.rs', 'pair_chunk_size.rs', 'core::runner_settings::chunk_size', ['k_pair_min_chunk_size', 'k_pair_auto_chunk_size', 'k_pair_calc_chunk_size']),
            ('src/core/runner_settings/utils.rs', 'pair_utils.rs', 'core::runner_settings::utils', ['k_pair_div_ceil']),
            ('src/core/runner_settings/num_threads.rs', 'pair_num_threads.rs', 'core::runner_settings::num_threads', ['k_pair_set_num_threads', 'k_pair_auto_num_threads']),
            ('src/core/runner.rs', 'pair_runner.rs', 'core::runner', ['k_pair_do_spawn', 'k_pair_next_chunk_size'])):
        out[rel] = open(os.path.join(static, fname)).read()
        for nm in names:
            pp = ['C15']
            if nm in ('k_pair_calc_chunk_size', 'k_pair_next_chunk_size'):
                pp += ['C11']
            if nm in ('k_pair_set_num_threads', 'k_pair_do_spawn', 'k_pair_next_chunk_size'):
                pp += ['C08']
            if nm in ('k_pair_do_spawn', 'k_pair_next_chunk_size'):
                pp += ['C10']
            if nm in ('k_pair_div_ceil', 'k_pair_min_chunk_size'):
                continue  # 64-bit symbolic division / multiplication: CBMC does not finish in 10 min (Verus proves these)
            HARNESSES[nm] = dict(kernel='settings', family='pair', props=pp, tier=('thorough' if nm in ('k_pair_calc_chunk_size', 'k_pair_next_chunk_size') else 'quick'), bounded=False,
                                 path='%s::vk_pair::%s' % (mod, nm), shape=dict(inputs='full-domain symbolic'), covers_expected=None, covers_min=0,
                                 bound='loop-free (find_chunk_size unrolled 22x with unwinding assertions: complete since the loop halves 2^20), full-domain symbolic inputs')
    for nm in ('k_dep_heap_pop_order', 'k_dep_heap_push_then_pop', 'k_dep_bag_positions'):
        HARNESSES[nm] = dict(kernel='dependency', family='dep', props=['C01', 'C06', 'C13'], tier='quick', bounded=True,
                             path='core::verif_kani::h_dep::%s' % nm, shape=dict(source='real orx-priority-queue BinaryHeap<usize, u8>, 3 entries'),
                             covers_expected=None, covers_min=0,
                             bound='T3 conformance of the REAL BinaryHeap: 3 entries with symbolic distinct keys')
    HARNESSES['k_dep_huge_chunk_wraps'] = dict(kernel='dependency', family='dep', props=['C15'], tier='quick', bounded=True,
                                               path='core::verif_kani::h_dep::k_dep_huge_chunk_wraps', shape=dict(source='real ConIterOfVec, 3 elements, three pulls of size 2^63'),
                                               covers_expected=None, covers_min=0, bound='finding probe for KF-C15-1: 3 elements, chunk size 2^63, 3 pulls')
    for nm, cov in (('k_drop_filter_collect_vec', 2), ('k_drop_find_early_exit', 2), ('k_drop_map_collect_vec_bag', 1), ('k_drop_real_merge_vec', 0), ('k_drop_real_merge_pinned_vec', 0)):
        HARNESSES[nm] = dict(kernel='api', family='drop', props=['C13'], tier=('thorough' if nm == 'k_drop_filter_collect_vec' else 'quick'), bounded=True,
                             path='core::verif_kani::h_drop::%s' % nm, shape=dict(source='Vec of 3 drop-counting items via the real ConIterOfVec', workers=1),
                             covers_expected=(cov if cov else None), covers_min=(None if cov else 0),
                             bound='3 owned items with drop counters, real ConIterOfVec source, one worker via the Runner contract, symbolic predicate tables')
    return out


if __name__ == '__main__':
    o = generate_all()
    print(len(HARNESSES), 'harnesses')
    for k, v in sorted(HARNESSES.items()):
        print(k, v['tier'], v['props'])
