"""Generate the Kani harness modules that are injected into a scratch copy of the real crate.

Per kernel file `src/core/<kernel>.rs` a module `#[cfg(kani)] mod vk { use super::*; ... }` is
appended (the `task` functions are private to their file), plus the shared toolkit
`src/core/verif_kani/` (model iterator = assumed contract T1, Runner/merge contract stubs, symbolic
closures, oracle). Shapes are concrete (DESIGN.md 2.3: symbolic shapes exhaust CBMC), contents,
closure tables and pre-existing target contents are symbolic.

Every harness has a name `k_<family>_<kernel>_<shape>`; `HARNESSES` maps name -> metadata
(properties served, tier, bound description, covers expected).
"""

KERNELS = {
    # kernel file      kind   first closure   key form
    'map_fil_col': dict(kind='MF', f0='map', fam='col', key='pos'),
    'filtermap_fil_col': dict(kind='FMF', f0='fmap', fam='col', key='pos'),
    'flatmap_fil_col': dict(kind='FLF', f0='flat', fam='col', key='pair'),
    'map_fil_col_x': dict(kind='MF', f0='map', fam='colx'),
    'filtermap_fil_col_x': dict(kind='FMF', f0='fmap', fam='colx'),
    'flatmap_fil_col_x': dict(kind='FLF', f0='flat', fam='colx'),
    'map_fil_cnt': dict(kind='MF', f0='map', fam='cnt', entry='map_fil_cnt'),
    'filtermap_fil_cnt': dict(kind='FMF', f0='fmap', fam='cnt', entry='filtermap_fil_cnt'),
    'flatmap_fil_cnt': dict(kind='FLF', f0='flat', fam='cnt', entry='fmap_fil_cnt'),
    'map_fil_red': dict(kind='MF', f0='map', fam='red', entry='map_fil_red'),
    'filtermap_fil_red': dict(kind='FMF', f0='fmap', fam='red', entry='filtermap_fil_red'),
    'flatmap_fil_red': dict(kind='FLF', f0='flat', fam='red', entry='fmap_fil_red'),
    'map_fil_find': dict(kind='MF', f0='map', fam='find', entry='map_fil_find'),
    'filtermap_fil_find': dict(kind='FMF', f0='fmap', fam='find', entry='filtermap_fil_find'),
    'flatmap_fil_find': dict(kind='FLF', f0='flat', fam='find', entry='fmap_fil_find'),
}

FAM_PROPS = {
    'col': ['C01', 'C05', 'C11'],
    'colx': ['C07', 'C05', 'C11'],
    'cnt': ['C04', 'C05', 'C11'],
    'red': ['C03', 'C05', 'C11'],
    'find': ['C02', 'C10', 'C05', 'C11'],
}

# single-worker shapes: (n, c, mine-mask, tier)
TASK_SHAPES = [
    (3, 1, (True, False, True), 'quick'),
    (3, 2, (False, True), 'quick'),
    (3, 2, (True, True), 'thorough'),
    (3, 1, (False, True, False), 'thorough'),
    (3, 1, (True, True, True), 'thorough'),
    (2, 1, (False, False), 'thorough'),
    (3, 3, (True,), 'thorough'),
    (2, 4, (True,), 'thorough'),
]

# two-worker shapes for the glue harnesses: (n, c, owner table, tier)
GLUE_SHAPES = [
    (3, 1, (1, 0, 1), 'quick'),
    (3, 2, (1, 0), 'quick'),
    (3, 1, (0, 1, 0), 'thorough'),
    (3, 2, (0, 1), 'thorough'),
    (3, 1, (1, 1, 0), 'thorough'),
    (2, 4, (1,), 'thorough'),
    (0, 1, (), 'thorough'),
]

HARNESSES = {}


def _mask(m):
    full = list(m) + [False] * (4 - len(m))
    return '[' + ', '.join('true' if x else 'false' for x in full) + ']'


def _owner(o):
    full = list(o) + [0] * (4 - len(o))
    return '[' + ', '.join(str(x) for x in full) + ']'


def _mname(m):
    return ''.join('1' if x else '0' for x in m) or 'e'


TASK_COMMON = '''
    /// single-worker task contract, shape (n, c, mine): worker 0 receives exactly the blocks k with mine[k]
    fn task_setup<'a>(log: &'a Log, n: usize, c: usize, mine: [bool; MAXN]) -> (ModelIter, [u8; MAXN], Cl<'a>) {
        let (it, data, _m) = single_worker_iter(n, c, mine);
        (it, data, Cl::any(log))
    }

    fn pull_log_ok(it: &ModelIter) {
        assert!(!it.bad_pull_size.get(), "C11: a pull did not request the worker's chunk size");
        assert!(!it.pull_after_none.get(), "a worker pulled again after the source returned None");
    }
'''

TASK_COL = '''
    fn check_task(n: usize, c: usize, mine: [bool; MAXN]) {
        let log = Log::new();
        let (it, data, cl) = task_setup(&log, n, c, mine);
        let f0 = cl.{f0}();
        let f1 = cl.fil();
        let got = task(&it, &f0, &f1, c);
        let mut j = 0;
        let mut i = 0;
        let mut rejected = false;
        while i < n {
            if mine[i / c] {
                let (out, cnt) = cl.expand(Kind::{kind}, i as u8, data[i]);
                assert!(log.calls(ST_MAP, i) == 1, "C05: first-stage closure not called exactly once on a delivered element");
                assert!(log.calls(ST_FIL, i) == cl.fil_calls(Kind::{kind}, data[i]), "C05: filter call count differs from the sequential chain");
                if cnt == 0 {
                    rejected = true;
                }
                let mut q = 0;
                while q < cnt {
                    assert!(j < got.len(), "C01: a surviving element is missing from the worker's result");
                    assert!(got[j].0 == {keyexpr}, "C01: key is not the source position");
                    assert!(got[j].1 == out[q], "C01: wrong value");
                    j += 1;
                    q += 1;
                }
            } else {
                assert!(log.calls(ST_MAP, i) == 0 && log.calls(ST_FIL, i) == 0, "C05: closure called on an element delivered to another worker");
            }
            i += 1;
        }
        assert!(j == got.len(), "C01: the worker's result has extra elements");
        pull_log_ok(&it);
        kani::cover!(rejected && j >= 1);
    }
'''

TASK_COLX = '''
    fn check_task(n: usize, c: usize, mine: [bool; MAXN]) {
        let log = Log::new();
        let (it, data, cl) = task_setup(&log, n, c, mine);
        let f0 = cl.{f0}();
        let f1 = cl.fil();
        let got = task(&it, &f0, &f1, c);
        let mut used = [false; 8];
        let mut total = 0;
        let mut i = 0;
        let mut rejected = false;
        while i < n {
            if mine[i / c] {
                let (out, cnt) = cl.expand(Kind::{kind}, i as u8, data[i]);
                assert!(log.calls(ST_MAP, i) == 1, "C05: first-stage closure not called exactly once on a delivered element");
                assert!(log.calls(ST_FIL, i) == cl.fil_calls(Kind::{kind}, data[i]), "C05: filter call count differs from the sequential chain");
                if cnt == 0 {
                    rejected = true;
                }
                let mut q = 0;
                while q < cnt {
                    // multiset inclusion: find an unused equal element
                    let mut found = false;
                    let mut g = 0;
                    while g < got.len() && g < 8 {
                        if !found && !used[g] && got[g] == out[q] {
                            used[g] = true;
                            found = true;
                        }
                        g += 1;
                    }
                    assert!(found, "C07: a surviving element is missing from the worker's result");
                    total += 1;
                    q += 1;
                }
            } else {
                assert!(log.calls(ST_MAP, i) == 0 && log.calls(ST_FIL, i) == 0, "C05: closure called on an element delivered to another worker");
            }
            i += 1;
        }
        assert!(total == got.len(), "C07: the worker's result has extra or duplicated elements");
        pull_log_ok(&it);
        kani::cover!(rejected && total >= 1);
    }
'''

TASK_CNT = '''
    fn check_task(n: usize, c: usize, mine: [bool; MAXN]) {
        let log = Log::new();
        let (it, data, cl) = task_setup(&log, n, c, mine);
        let f0 = cl.{f0}();
        let f1 = cl.fil();
        let got = task(&it, &f0, &f1, c);
        let mut total = 0;
        let mut i = 0;
        let mut rejected = false;
        while i < n {
            if mine[i / c] {
                let (_out, cnt) = cl.expand(Kind::{kind}, i as u8, data[i]);
                assert!(log.calls(ST_MAP, i) == 1, "C05: first-stage closure not called exactly once on a delivered element");
                assert!(log.calls(ST_FIL, i) == cl.fil_calls(Kind::{kind}, data[i]), "C05: filter call count differs from the sequential chain");
                if cnt == 0 {
                    rejected = true;
                }
                total += cnt;
            } else {
                assert!(log.calls(ST_MAP, i) == 0 && log.calls(ST_FIL, i) == 0, "C05: closure called on an element delivered to another worker");
            }
            i += 1;
        }
        assert!(got == total, "C04: the worker's count differs from the number of survivors among its elements");
        pull_log_ok(&it);
        kani::cover!(rejected && total >= 1);
    }
'''

TASK_RED = '''
    fn check_task(n: usize, c: usize, mine: [bool; MAXN], op: Op) {
        let log = Log::new();
        let (it, data, cl) = task_setup(&log, n, c, mine);
        let f0 = cl.{f0}();
        let f1 = cl.fil();
        let r = red(&log, op);
        let got = task(&it, &f0, &f1, &r, c);
        let mut total = 0;
        let mut acc: u8 = 0;
        let mut i = 0;
        let mut rejected = false;
        while i < n {
            if mine[i / c] {
                let (out, cnt) = cl.expand(Kind::{kind}, i as u8, data[i]);
                assert!(log.calls(ST_MAP, i) == 1, "C05: first-stage closure not called exactly once on a delivered element");
                assert!(log.calls(ST_FIL, i) == cl.fil_calls(Kind::{kind}, data[i]), "C05: filter call count differs from the sequential chain");
                if cnt == 0 {
                    rejected = true;
                }
                let mut q = 0;
                while q < cnt {
                    acc = if total == 0 { out[q].v } else { apply(op, acc, out[q].v) };
                    total += 1;
                    q += 1;
                }
            } else {
                assert!(log.calls(ST_MAP, i) == 0 && log.calls(ST_FIL, i) == 0, "C05: closure called on an element delivered to another worker");
            }
            i += 1;
        }
        match got {
            None => assert!(total == 0, "C03: None although an element survives"),
            Some(e) => {
                assert!(total >= 1, "C03: a value although nothing survives");
                assert!(e.v == acc, "C03: the worker's accumulator is not the fold of its survivors");
            }
        }
        // every survivor is combined exactly once: survivors - 1 operator calls
        let ncalls = log.total(ST_P);
        assert!(ncalls + 1 == total || (total == 0 && ncalls == 0), "C03: number of reduce calls is not survivors - 1");
        pull_log_ok(&it);
        kani::cover!(rejected && total >= 2);
    }
'''

TASK_FIND = '''
    fn check_task(n: usize, c: usize, mine: [bool; MAXN]) {
        let log = Log::new();
        let (it, data, cl) = task_setup(&log, n, c, mine);
        let f0 = cl.{f0}();
        let f1 = cl.fil();
        let got = task(&it, &f0, &f1, c);
        // expected: the first survivor among my elements, in source order
        let mut exp: Option<(usize, E)> = None;
        let mut i = 0;
        while i < n {
            if mine[i / c] && exp.is_none() {
                let (out, cnt) = cl.expand(Kind::{kind}, i as u8, data[i]);
                if cnt >= 1 {
                    exp = Some((i, out[0]));
                }
            }
            i += 1;
        }
        match (got, exp) {
            (None, None) => {}
            (Some(g), Some(e)) => {
                assert!(g.0 == e.0, "C02: reported index is not the source position of the worker's first match");
                assert!(g.1 == e.1, "C02: wrong value");
            }
            (None, Some(_)) => assert!(false, "C02: None although one of the worker's elements matches"),
            (Some(_), None) => assert!(false, "C02: a match although none of the worker's elements matches"),
        }
        // C10: a worker that found a match signalled the others and pulled nothing afterwards;
        // elements of its later blocks were never evaluated; nothing is evaluated twice (C05)
        assert!(it.skipped_by[0].get() == got.is_some(), "C10: skip_to_end must be called exactly when the worker found a match");
        assert!(!it.pull_after_own_skip.get(), "C10: the worker pulled again after its own skip_to_end");
        let mut i = 0;
        while i < n {
            assert!(log.calls(ST_MAP, i) <= 1, "C05: first-stage closure called twice on one element");
            if !mine[i / c] {
                assert!(log.calls(ST_MAP, i) == 0 && log.calls(ST_FIL, i) == 0, "C05: closure called on an element delivered to another worker");
            }
            if let Some(e) = exp {
                if i / c > e.0 / c {
                    assert!(log.calls(ST_MAP, i) == 0 && log.calls(ST_FIL, i) == 0, "C10: element of a later chunk evaluated after the match");
                }
                if mine[i / c] && i < e.0 {
                    assert!(log.calls(ST_MAP, i) == 1, "C02: an element before the match was skipped");
                }
            } else if mine[i / c] {
                assert!(log.calls(ST_MAP, i) == 1, "C02: an element was skipped although no match was found");
            }
            i += 1;
        }
        assert!(!it.bad_pull_size.get(), "C11: a pull did not request the worker's chunk size");
        kani::cover!(got.is_some());
        kani::cover!(got.is_none());
    }
'''

TASK_TEMPLATES = dict(col=TASK_COL, colx=TASK_COLX, cnt=TASK_CNT, red=TASK_RED, find=TASK_FIND)


def _fill(t, **kw):
    for k, v in kw.items():
        t = t.replace('{' + k + '}', v)
    return t


def gen_kernel_module(kernel):
    k = KERNELS[kernel]
    fam = k['fam']
    body = ['', '#[cfg(kani)]', 'mod vk {', '    use super::*;', '    use crate::core::verif_kani::*;', TASK_COMMON]
    keyexpr = 'i' if k.get('key', 'pos') == 'pos' else '(i, q)'
    body.append(_fill(TASK_TEMPLATES[fam], f0=k['f0'], kind=k['kind'], keyexpr=keyexpr))
    for (n, c, mine, tier) in TASK_SHAPES:
        ops = [('Add', tier)] if fam == 'red' else [(None, tier)]
        if fam == 'red' and (n, c, mine) == (3, 1, (True, False, True)):
            ops = [('Add', 'quick'), ('Xor', 'thorough'), ('Min', 'thorough'), ('Max', 'thorough')]
        for op, t2 in ops:
            name = 'k_task_%s_n%dc%d_m%s%s' % (kernel, n, c, _mname(mine), ('_' + op.lower()) if op else '')
            unwind = max(n, 2) + 3
            call = 'check_task(%d, %d, %s%s);' % (n, c, _mask(mine), (', Op::%s' % op) if op else '')
            body.append('    #[kani::proof]\n    #[kani::unwind(%d)]\n    fn %s() { %s }\n' % (unwind, name, call))
            nmine = sum(1 for i in range(n) if mine[i // c])
            HARNESSES[name] = dict(kernel=kernel, family='task_' + fam, props=FAM_PROPS[fam], tier=t2,
                                   bounded=True, path='core::%s::vk::%s' % (kernel, name),
                                   shape=dict(n=n, chunk=c, blocks_of_this_worker=list(mine), op=op),
                                   covers_expected=None,
                                   bound='n=%d elements, chunk size %d, worker receives blocks %s; symbolic data (u8), symbolic closure tables over a 4-value domain' % (n, c, _mname(mine)))
    body.append('}')
    return '\n'.join(body) + '\n'


def generate_all():
    """returns dict relpath -> text to append (kernel files) / to create (toolkit handled by caller)"""
    HARNESSES.clear()
    out = {}
    for kernel in KERNELS:
        out['src/core/%s.rs' % kernel] = gen_kernel_module(kernel)
    return out


if __name__ == '__main__':
    o = generate_all()
    print(len(HARNESSES), 'harnesses')
    for k, v in sorted(HARNESSES.items()):
        print(k, v['tier'], v['props'])
