#!/usr/bin/env python3
"""./check <ID> [--tier quick|thorough] [--replay <file>]

Decides one property on /repo's current working tree by contract-based deductive verification:
  * Verus units generated from the real function text (unbounded obligations),
  * Kani harnesses injected into a scratch copy of the real crate (loop-free => complete;
    otherwise bounded stand-in, labelled bounded).
exit 0: every obligation discharged;  exit 1 + `VIOLATION property=<id> replay=<path>`;
exit 2 + `UNDECIDED ...`: the machinery could not decide (anchor lost, tool limit) -- never an alarm.
"""
import argparse
import concurrent.futures as cf
import json
import os
import shutil
import sys
import tempfile
import time

HERE = os.path.dirname(os.path.abspath(__file__))
VERIF = os.path.dirname(HERE)
sys.path.insert(0, HERE)
import verus_run  # noqa: E402
import props as P  # noqa: E402

try:
    import kani_run  # noqa: E402
except ImportError:  # pragma: no cover
    kani_run = None


def load_known_findings():
    known, fixed = [], []
    path = os.path.join(VERIF, 'known_findings.txt')
    if not os.path.exists(path):
        return known, fixed
    for line in open(path):
        line = line.strip()
        if not line or line.startswith('#'):
            continue
        kind, _, rest = line.partition(':')
        rest = rest.strip()
        fields = dict(tok.split('=', 1) for tok in rest.split() if '=' in tok and tok.split('=', 1)[0] in ('property', 'key'))
        if kind == 'known':
            known.append(dict(property=fields.get('property'), key=fields.get('key'), text=rest))
        elif kind == 'fixed':
            fixed.append(dict(property=fields.get('property'), text=rest))
    return known, fixed


def main():
    ap = argparse.ArgumentParser()
    ap.add_argument('prop')
    ap.add_argument('--tier', default=os.environ.get('VERIF_TIER', 'quick'), choices=['quick', 'thorough'])
    ap.add_argument('--repo', default='/repo')
    ap.add_argument('--replay', default=None)
    ap.add_argument('--keep', action='store_true', help='keep the scratch directory')
    a = ap.parse_args()
    prop = a.prop
    if prop not in P.PROPS:
        print('unknown or unclaimed property %s' % prop)
        return 2
    if a.replay:
        return replay(a)
    seed = int(os.environ.get('VERIF_SEED', '0') or 0)
    cfg = P.PROPS[prop]
    t0 = time.time()
    scratch = tempfile.mkdtemp(prefix='orxverif.%s.' % prop, dir='/var/tmp')
    try:
        rc = run(prop, cfg, a, seed, scratch, t0)
    finally:
        if not a.keep:
            shutil.rmtree(scratch, ignore_errors=True)
    return rc


def run(prop, cfg, a, seed, scratch, t0):
    tier = a.tier
    known, fixed = load_known_findings()
    cfg = dict(cfg, _known_keys=[k['key'] for k in known if k['property'] == prop])
    # ---------------- Verus part
    vdir = os.path.join(scratch, 'verus')
    os.makedirs(vdir)
    units = cfg.get('verus_units', [])
    vres = {}
    futs = {}
    kres = None
    with cf.ThreadPoolExecutor(max_workers=max(1, len(units)) + 1) as ex:
        for u in units:
            futs[ex.submit(verus_run.run_unit, u, a.repo, vdir)] = u
        kfut = None
        if kani_run is not None and cfg.get('kani') and not os.environ.get('VERIF_SKIP_KANI'):
            kfut = ex.submit(kani_run.run_property, prop, cfg, tier, a.repo, scratch, seed)
        for f in cf.as_completed(futs):
            vres[futs[f]] = f.result()
        if kfut is not None:
            kres = kfut.result()

    undecided = []
    violations = []   # dict(obligation, message, backend, detail, key)
    v_obl = []
    for u in units:
        r = vres[u]
        if r.status == 'undecided':
            undecided.append('verus unit %s: %s' % (u, r.reason))
            continue
        for o in r.obligations:
            if prop in o['props']:
                v_obl.append(dict(o, unit=u))
        for f in r.failed:
            if prop in f['props']:
                violations.append(dict(obligation='%s.V.%s.%s' % (prop, u, f['obligation']), backend='verus/z3', message=f['message'],
                                       detail=f, key='V.%s.%s' % (u, f['obligation'])))
    k_cov = None
    if kres is not None:
        k_cov = kres['coverage']
        undecided.extend(kres['undecided'])
        violations.extend(kres['violations'])

    # ---------------- known findings
    reported = []
    known_lines = []
    for v in violations:
        kf = [k for k in known if k['property'] == prop and k['key'] == v.get('key')]
        if kf:
            known_lines.append('KNOWN-FINDING: %s' % kf[0]['text'])
        else:
            reported.append(v)
    for l in sorted(set(known_lines)):
        print(l)

    # ---------------- evidence
    wall = time.time() - t0
    # obligations that fail only because of a listed known finding are reported separately
    known_keys = set(k['key'] for k in known if k['property'] == prop)
    n_known = len([v for v in violations if v.get('key') in known_keys])
    known_complete = len([v for v in violations if v.get('key') in known_keys and v.get('complete')])
    n_obl = len(v_obl) + (k_cov['complete_obligations'] if k_cov else 0) - known_complete
    n_dis = len([o for o in v_obl if o['discharged']]) + (k_cov['complete_discharged'] if k_cov else 0)
    trusted = list(cfg.get('trusted_base', []))
    fn_list = []
    for u in units:
        r = vres[u]
        if r.meta:
            for f in r.meta['functions']:
                if f['kind'] == 'fn' and (prop in f['props'] or any(prop in c['props'] for c in r.meta['clauses'] if c['fn'] == f['name'])):
                    fn_list.append('%s %s:%d-%d sha256=%s' % (f['name'], f['file'], f['lines'][0], f['lines'][1], f['sha256'][:12]))
            for kw, hits in r.meta['trusted_scan'].items():
                trusted.append('verus unit %s: %d x `%s` in generated text (assumed contracts listed in DESIGN.md 2.1)' % (u, len(hits), kw))
            for rw in r.meta['rewrites']:
                trusted.append('rewrite %s' % rw)
    samples = []
    for o in v_obl[:12]:
        samples.append(dict(obligation='%s.V.%s.%s' % (prop, o['unit'], o['name']), clause=o['text'], backend='verus/z3', discharged=o['discharged']))
    if k_cov:
        samples.extend(k_cov.get('samples', [])[:12])
    level = cfg['level']
    coverage = dict(
        obligations=n_obl,
        discharged=n_dis,
        checker_cmd='; '.join(sorted(set([vres[u].cmd for u in units if vres[u].cmd] + (k_cov['cmds'] if k_cov else [])))),
        trusted_base=trusted,
        samples=samples,
        functions_under_contract=fn_list,
        verus=dict((u, dict(status=vres[u].status, reason=vres[u].reason, functions_verified=vres[u].verified,
                            vacuity_twins_failed_as_expected='%d/%d' % (vres[u].vacuity_failed_as_expected, vres[u].vacuity_expected),
                            smt_ms=vres[u].smt_ms, wall_s=round(vres[u].wall_s, 2))) for u in units),
        solver_time_s=round(sum(vres[u].smt_ms for u in units) / 1000.0 + (k_cov['solver_s'] if k_cov else 0), 2),
        unbounded_obligations='Verus obligations (all inputs, all iterations) and loop-free Kani harnesses over full-domain inputs',
        explanation=cfg.get('explanation', ''),
        degraded=bool(undecided) or bool(k_cov and k_cov.get('optional_undecided')),
        undecided=undecided,
        not_decided_resource_limit=(k_cov.get('optional_undecided') if k_cov else []),
        known_findings_reported=n_known,
    )
    if k_cov:
        coverage['bounded_checks'] = k_cov['bounded_checks']
        coverage['bounded_passed'] = k_cov['bounded_passed']
        coverage['bounds'] = k_cov['bounds']
        coverage['kani'] = k_cov['detail']
        coverage['evaluations'] = max(1, k_cov['harnesses_run'] + len(v_obl))
        coverage['distinct_nontrivial'] = max(2, k_cov['harnesses_nonvacuous'] + len(v_obl))
        coverage['rule'] = 'one evaluation per Kani harness (a concrete shape with symbolic contents and symbolic closure tables) plus one per Verus obligation; non-trivial = all kani::cover! points of the harness satisfied / the Verus vacuity twin of the function fails'
    else:
        coverage['evaluations'] = max(1, len(v_obl))
        coverage['distinct_nontrivial'] = max(2, len(v_obl))
        coverage['rule'] = 'one evaluation per Verus obligation (contract clause, body safety, termination); non-trivial = the vacuity twin of the function (same requires, assert(false)) fails to verify'
    ev = dict(property_id=prop, tier=tier, seed=seed, level=level, coverage=coverage,
              assumptions=cfg.get('assumptions', []) + trusted, wall_s=round(wall, 2), violations=len(reported))
    # evidence describes /repo; a run against another tree (--repo) writes next to its scratch output
    evdir = os.path.join(VERIF, 'evidence') if os.path.realpath(a.repo) == '/repo' else os.path.join('/var/tmp', 'orxverif-evidence-other-tree')
    os.makedirs(evdir, exist_ok=True)
    with open(os.path.join(evdir, '%s.json' % prop), 'w') as f:
        json.dump(ev, f, indent=1)

    # ---------------- verdict
    if reported:
        os.makedirs(os.path.join(VERIF, 'replays'), exist_ok=True)
        for v in reported:
            rp = os.path.join(VERIF, 'replays', '%s.%s.json' % (prop, v['obligation'].replace('/', '_').replace(' ', '_')[:120]))
            cex = v.get('counterexample')
            with open(rp, 'w') as f:
                json.dump(dict(property=prop, obligation=v['obligation'], backend=v['backend'], message=v['message'],
                               verifier_output=v.get('detail'), counterexample=cex,
                               replay=v.get('replay_test'), repo=a.repo), f, indent=1)
            tail = '' if cex else ' no-failing-input-found'
            print('FAILED-OBLIGATION %s (%s): %s' % (v['obligation'], v['backend'], v['message']))
            print('VIOLATION property=%s replay=%s%s' % (prop, rp, tail))
        return 1
    if undecided:
        for u in undecided:
            print('UNDECIDED property=%s reason=%s' % (prop, u))
        return 2
    print('OK property=%s tier=%s obligations=%d discharged=%d%s wall=%.1fs' % (
        prop, tier, n_obl, n_dis, (' bounded_checks=%d' % k_cov['bounded_checks']) if k_cov else '', wall))
    return 0


def replay(a):
    with open(a.replay) as f:
        r = json.load(f)
    print(json.dumps({k: r[k] for k in ('property', 'obligation', 'backend', 'message', 'counterexample')}, indent=1))
    if r.get('replay') and kani_run is not None:
        return kani_run.run_replay(r, a.repo)
    print('no executable replay attached (the verifier gave no counterexample); verifier output is in the file')
    return 0


if __name__ == '__main__':
    sys.exit(main())
