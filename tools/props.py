"""Per-property configuration of the checks (which Verus units and which Kani harness groups decide it)."""

T1 = 'T1 orx-concurrent-iter 1.30.0 protocol (atomic pulls returning disjoint consecutive index ranges in increasing order; has_more()=Yes(r) => 1<=r<=initial len; after skip_to_end every pull is None): assumed, dependency code not verified'
T2 = 'T2 orx-concurrent-ordered-bag set_value/set_values/into_inner contract: assumed; executed for real (sequentially) in Kani harnesses'
T3 = 'T3 orx-priority-queue BinaryHeap push/pop_node/push_then_pop is a min-queue w.r.t. a strict total order on keys: assumed (external_body specs in unit merge)'
T4 = 'T4 Vec / SplitVec / FixedVec / PinnedVec::push / SplitVec::append preserve element sequences: vstd specs for Vec, assumed trait contract for PinnedVec; executed for real in Kani harnesses'
T5 = 'T5 std::thread::scope: every spawned closure runs exactly once, join returns its value, the scope returns after all workers finished (rewrites RW1-RW3 replace scope/spawn/join by ghost-logged stand-ins)'
T6 = 'T6 Iterator::reduce over joined handles is a left fold (rewrite RW5, external_body join_all_reduce)'
T7 = 'T7 #[derive(PartialEq)] on NumThreads compares variant and NonZeroUsize payload by value (assume_specification)'
AHW = 'A-hw std::thread::available_parallelism() returns Ok(n) with n <= 2^40 (assume_specification)'
A64 = 'A-64 64-bit target: usize::MAX == 2^64-1 (global size_of usize == 8)'
ASPEC = 'assume_specification for i32::saturating_add, std::hint::black_box, Vec::as_mut_ptr, <*mut T>::add, <*mut T>::read, Vec::set_len (raw-pointer reads modelled by an uninterpreted slot_val)'
ARITH = 'machine arithmetic is NOT treated as mathematical: Verus checks every usize/i32 operation of the extracted text for overflow; Kani runs with overflow checks on'
RSCHED = 'R-sched: workers share only the concurrent iterator, the ordered bag and Fn+Sync closures, so a concurrent run is observationally a sequential run of the workers over some chunk->worker assignment cut at an early-exit frontier (argued in DESIGN.md 1, re-checked by the shared-state scan, not machine-proved)'

PROPS = {
    'C08': dict(
        level='proof',
        verus_units=['core'],
        kani=['seq'],
        trusted_base=[T1, T5, T7, AHW, A64, ARITH],
        assumptions=['workers of one run are the only threads executing closures during it (T5)'],
        explanation='Verus: calc_num_threads(len, Max(n)) <= n; Runner::new gives 1 <= max_num_threads <= n; every run/run_map/reduce spawns between 1 and max_num_threads workers for every sequence of has_more() answers; is_sequential() <=> Max(1). Kani: with Max(1) no kernel reaches the Runner.',
    ),
    'C11': dict(
        level='proof',
        verus_units=['core'],
        kani=['pull'],
        trusted_base=[T1, T5, AHW, A64, ARITH],
        assumptions=['T1: a pull of size c takes c consecutive elements, fewer only at the end of the source'],
        explanation='Verus: calc_chunk_size maps Exact(x) to Exact(x); next_chunk_size* returns Some(x) under Exact(x); the spawn log of run/run_map/reduce is constantly x for every has_more() history. Kani (bounded): each kernel forwards its chunk size unchanged to every pull.',
    ),
    'C12': dict(
        level='proof',
        verus_units=['core'],
        kani=['params'],
        trusted_base=[T7, A64],
        assumptions=[],
        explanation='Verus: Default, From<usize>, with_num_threads, with_chunk_size, is_sequential, sequential() against their specs for all inputs. Kani (loop-free, complete): each transformation and setter of the 8 iterator types keeps params().',
    ),
    'C15': dict(
        level='proof',
        verus_units=['core'],
        kani=['cfg'],
        trusted_base=[T1, T5, AHW, A64, ASPEC, ARITH],
        assumptions=[],
        explanation='Verus: every arithmetic operation, assert!, expect, index and division in parameter resolution and in the Runner is safe for all inputs; chunk >= 1, threads >= 1. Kani (bounded): kernels agree with the sequential oracle for every worker count / chunk size of the shapes.',
    ),
}

NOT_APPLICABLE = {
    'C14': 'panic propagation / unwinding has no semantics in Verus (a reachable panic is a failed obligation) nor in Kani (panic=abort, no catch_unwind, no threads); no pre/postcondition can express "propagates as a panic and drops nothing twice while unwinding"',
}

SETUP_CMD = 'true'
HOOK_GUARD = 'none: no hook in /repo; harness modules are injected into a scratch copy of the crate under cfg(kani)'
HOOK_ENABLE = 'not needed (cargo kani sets cfg(kani) in the scratch copy)'
HOOK_COMMITS = []
