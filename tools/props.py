"""Per-property configuration of the checks (which Verus units and which Kani harness groups decide it)."""

T1 = 'T1 orx-concurrent-iter 1.30.0 protocol (its sequential part is checked against the real ConIterOfVec / ConIterOfIter by the k_dep_* harnesses; atomicity under real concurrency is assumed) (atomic pulls returning disjoint consecutive index ranges in increasing order; has_more()=Yes(r) => 1<=r<=initial len; after skip_to_end every pull is None): assumed, dependency code not verified'
T2 = 'T2 orx-concurrent-ordered-bag set_value/set_values/into_inner contract: assumed; executed for real (sequentially) in Kani harnesses and checked directly by k_dep_bag_positions (bounded)'
T3 = 'T3 orx-priority-queue BinaryHeap push/pop_node/push_then_pop is a min-queue w.r.t. a strict total order on keys: assumed (external_body specs in unit merge); checked against the real BinaryHeap on 3 symbolic entries by k_dep_heap_* (bounded)'
T4 = 'T4 Vec / SplitVec / FixedVec / PinnedVec::push / SplitVec::append preserve element sequences: vstd specs for Vec, assumed trait contract for PinnedVec; executed for real in Kani harnesses'
T5 = 'T5 std::thread::scope: every spawned closure runs exactly once, join returns its value, the scope returns after all workers finished (rewrites RW1-RW3 replace scope/spawn/join by ghost-logged stand-ins)'
T6 = 'T6 Iterator::reduce over joined handles is a left fold (rewrite RW5, external_body join_all_reduce)'
T7 = 'T7 #[derive(PartialEq)] on NumThreads compares variant and NonZeroUsize payload by value (assume_specification)'
AHW = 'A-hw std::thread::available_parallelism() returns Ok(n) with n <= 2^40 (assume_specification)'
A64 = 'A-64 64-bit target: usize::MAX == 2^64-1 (global size_of usize == 8)'
ASPEC = 'assume_specification for i32::saturating_add, std::hint::black_box, Vec::as_mut_ptr, <*mut T>::add, <*mut T>::read, Vec::set_len (raw-pointer reads modelled by an uninterpreted slot_val)'
ARITH = 'machine arithmetic is NOT treated as mathematical: Verus checks every usize/i32 operation of the extracted text for overflow; Kani runs with overflow checks on'
RSCHED = 'R-sched: workers share only the concurrent iterator, the ordered bag and Fn+Sync closures, so a concurrent run is observationally a sequential run of the workers over some chunk->worker assignment cut at an early-exit frontier (argued in DESIGN.md 1, re-checked by the shared-state scan, not machine-proved)'

TASK_BOUND = 'Kani harnesses are bounded stand-ins: concrete shapes (n <= 3 source elements, chunk size, block->worker table, early-exit frontier), symbolic u8 data, symbolic closure tables over a 4-value domain; <= 2 workers through the Runner/merge contracts'
STUBS = 'Kani kernels are verified against executable forms of the contracts that Verus proves for Runner::{run,run_map,reduce} and heap_sort_into_{vec,pinned_vec} (kani/verif_kani/stubs.rs), never against those bodies (std::thread::scope makes Kani 0.68 crash; the real heap merge exceeds CBMC)'
MODEL = 'the concurrent iterator is the executable model of T1 in kani/verif_kani/model.rs (real dependency code is executed only for the wrappers values()/ids_and_values()/BufferedIter and for ConIterOfVec in eager second stages); orx-concurrent-iter copy with one keyword changed (`mod buffered` -> `pub mod buffered`), checked by diff on every run'

MC_TEXT = 'bounded model checking of the real kernel/API code against the sequential oracle (same chain of std::iter adaptors) on exhaustively enumerated small shapes, composed with unbounded Verus proofs of the Runner and merge contracts; bounded part labelled bounded in the evidence'

import kani_gen as _kg
# composition-site harnesses (sequential mode, every three-step chain through count and reduce): see kani_gen.QUICK_API_SEQ
COMP = r'|^k_api_seq_(?:%s)_(?:count|reduce)_' % '|'.join(c for c in _kg.CHAINS if c not in _kg.BASE_CHAINS)

PROPS = {
    'C01': dict(
        level='model_checking', verus_units=['merge', 'core', 'utils', 'tasks'],
        kani=True,
        kani_select=dict(quick=r'^k_order_|^k_src_|^k_merge_|^k_dep_heap|^k_task_map_fil_col_n|^k_glue_map_fil_col_n2c1|^k_api_par2_(empty|fil|fmap|map_fil)_collect_vec|^k_api_seq_(empty|fil)_collect_vec' + COMP,
                         thorough=r'^k_order_|^k_src_|^k_merge_|^k_dep_heap|^k_dep_bag|^k_task_\w+_col_n|^k_taskkeys_|^k_glue_\w+_col_n|^k_api_(par2|seq)_\w+_collect(_vec)?_n' + COMP),
        trusted_base=[T1, T2, T3, T4, T5, ASPEC, A64, ARITH, RSCHED, STUBS, MODEL],
        assumptions=[TASK_BOUND],
        explanation='Verus (unbounded, real text): heap_sort_into_vec/_pinned_vec append exactly the key-sorted enumeration of all (key,value) slots after the untouched prefix (every slot read once), for any number and length of worker vectors; Runner::run_map returns one result per worker in spawn order for every has_more() history. Verus (unbounded, real text, RW15/RW16): filtermap_fil_col::task and flatmap_fil_col::task return keys that are strictly increasing and are positions pulled by this worker (T1 assumed at the two pull sites), every value is a filter_map output that has a value and passes the filter; Fallible for Option never panics under has_value(). Kani (bounded): every collect kernel task returns exactly the survivors of the blocks delivered to it keyed by source position in strictly increasing key order (= the merge precondition, asserted by the merge contract stub); kernel glue and public API chains equal the std::iter chain. ' + MC_TEXT,
    ),
    'C02': dict(
        level='model_checking', verus_units=['utils', 'core', 'merge', 'dispatch'],
        kani=True,
        kani_select=dict(quick=r'^k_order_|^k_task_\w+_find_n(3c1|2c1|1c1)|^k_glue_(map_fil|filtermap_fil)_find_n3c1|^k_api_(par2|seq)_(map_fil_find|fil_first|map_any|fmap_fil_all|empty_find|fil_fil_find)' + COMP,
                         thorough=r'^k_order_|^k_task_\w+_find_|^k_glue_\w+_find_|^k_api_(par2|seq)_\w+_(find|first|any|all)_n' + COMP),
        trusted_base=[T1, T5, T6, A64, ARITH, RSCHED, STUBS, MODEL],
        assumptions=[TASK_BOUND, 'early exit: for every frontier f >= the block in which some worker matched, blocks <= f are delivered to their owners (exactly the possibilities under T1)'],
        explanation='Verus (unbounded): maybe_reduce case table (None neutral, reduce applied once in order on Some/Some); Runner::reduce folds every worker result once in spawn order. Lemma L2 (unit merge, pure spec): min-by-index over the per-worker first matches is the global first match for any number of workers, any assignment and any admissible early-exit frontier. Unit dispatch: the three find dispatchers return the result of the sequential kernel when is_sequential() and that of the parallel kernel otherwise (they do not answer by themselves for any input). Kani (bounded): each find kernel task returns the first survivor of its blocks with its source index; kernel glue with the min-by-index reduce returns the global first match for every block->worker table and every early-exit frontier, None iff nothing matches; find/first/any/all through the public API agree with std. ' + MC_TEXT,
    ),
    'C03': dict(
        level='model_checking', verus_units=['utils', 'core', 'redtasks', 'dispatch', 'merge'],
        kani=True,
        kani_select=dict(quick=r'^k_task_\w+_red_n(3c1|1c1|2c1)|^k_task_\w+_red_n3c2_m11|^k_glue_map_fil_red_n3c1|^k_api_par2_(map_fil_reduce|fil_fold|map_min_by_key|map_fil_sum)|^k_api_seq_(map_fil_reduce|fil_fold|map_min_by_key|map_max_by_key|fil_max_by|fil_min_by|map_min|map_fil_sum|fmap_fil_max|flat_reduce)' + COMP,
                         thorough=r'^k_task_\w+_red_|^k_glue_\w+_red_|^k_api_(par2|seq)_\w+_(reduce|fold|sum|min|max|min_by|max_by|min_by_key|max_by_key)_n' + COMP),
        trusted_base=[T1, T5, T6, A64, ARITH, RSCHED, STUBS, MODEL],
        assumptions=[TASK_BOUND, 'operators checked: wrapping add, xor, min, max on u8 payloads (associative and commutative)'],
        explanation='Verus (unbounded): maybe_reduce case table; Runner::reduce returns the left fold of all worker results (each exactly once), None only for zero workers. Verus (unbounded, real text with RW17-RW19): in the three reduce kernel tasks the per-worker accumulator is None exactly when no chunk pulled so far had a survivor (a chunk without survivors never resets it), and the accumulator seed of the hand-unrolled filter_map arm passed the filter. Kani (bounded): each reduce kernel task folds exactly the survivors of its blocks with survivors-1 operator calls; glue and API wrappers (fold, sum, min, max, *_by, *_by_key) agree with the sequential fold; None iff nothing survives. ' + MC_TEXT,
    ),
    'C04': dict(
        level='model_checking', verus_units=['core', 'redtasks', 'dispatch', 'merge'],
        kani=True,
        kani_select=dict(quick=r'^k_task_\w+_cnt_n|^k_glue_map_fil_cnt_n3c1|^k_api_par2_(empty_count|map_fil_count|fil_for_each)|^k_api_seq_(\w+_count|fil_for_each)' + COMP,
                         thorough=r'^k_task_\w+_cnt_|^k_glue_\w+_cnt_|^k_api_(par2|seq)_\w+_(count|for_each)_n' + COMP),
        trusted_base=[T1, T5, T6, A64, ARITH, RSCHED, STUBS, MODEL],
        assumptions=[TASK_BOUND],
        explanation='Verus (unbounded): Runner::reduce sums every worker count exactly once. Verus (unbounded, real text with RW19-RW21): in the three count kernel tasks the count of a worker is the sum of the survivors of all chunks it pulled (no overflow while the total fits in usize). Kani (bounded): each count kernel task (incl. the hand-rolled nested loop of filtermap_fil_cnt) returns the number of survivors among exactly the elements delivered to it; glue and count()/for_each() through the API agree with std; for_each calls its closure once per survivor. ' + MC_TEXT,
    ),
    'C05': dict(
        level='model_checking', verus_units=[],
        kani=True,
        kani_select=dict(quick=r'^k_dep_|^k_task_\w+_n3c1_m101|^k_task_flatmap_fil_(col|cnt|red|find)_n2c1|^k_api_par2_(map_fil_count|fil_for_each|map_fil_reduce|map_fil_find|fil_fil_find|map_fil_collect_vec)|^k_api_seq_\w+_count' + COMP,
                         thorough=r'^k_dep_|^k_task_|^k_glue_|^k_api_par2_|^k_api_seq_\w+_count'),
        trusted_base=[T1, T5, RSCHED, STUBS, MODEL],
        assumptions=[TASK_BOUND, 'clause 2 of the property (a by-value iterator source is advanced by one thread at a time) is the CAS handle protocol inside orx-concurrent-iter ConIterOfIter: no contract on orx-parallel functions can express or decide it; it is assumed (T1), NOT claimed by this check'],
        explanation='Kani (bounded): call-log harnesses. Every user closure logs (stage, source position); for must-visit terminals the call multiset equals the std chain (each stage exactly once per element reaching it, nothing for elements delivered to other workers); short-circuit terminals call each closure at most once per element. Covers every kernel task and the closure compositions of src/par/*.rs. ' + MC_TEXT,
    ),
    'C06': dict(
        level='model_checking', verus_units=['merge', 'tasks', 'into'],
        kani=True,
        kani_select=dict(quick=r'^k_merge_|^k_dep_bag|^k_dep_heap|^k_glue_map_fil_col_n2c1|^k_api_(par2|seq|par2u|sequ)_(map|map_fil)_into_vec',
                         thorough=r'^k_merge_|^k_glue_\w+_col_n|^k_api_\w+_into_'),
        trusted_base=[T1, T2, T3, T4, T5, ASPEC, A64, RSCHED, STUBS, MODEL],
        assumptions=[TASK_BOUND, 'targets hold one pre-existing symbolic element'],
        explanation='Verus (unbounded): the merge appends after the untouched prefix old(output); the chunked arm of map_col::task writes only at positions >= the number of pre-existing elements (offset + chunk.begin_idx); Vec::map_into and SplitVec::map_into reserve (concurrent) capacity for existing + new elements before the target becomes an ordered bag (T2 precondition of map_col) and hand back the existing contents as a prefix, for every existing length and every source length; the six filtering *_filter_into methods of Vec / SplitVec and the four methods of FixedVec keep the previous contents in front. Kani (bounded): the REAL merge with one and with two worker vectors after a non-empty prefix; collect_into for Vec / SplitVec / FixedVec targets with symbolic pre-existing contents, map-only (ordered bag) and filtering (merge) pipelines, known and unknown source length, parallel and num_threads(1): result == existing ++ std chain. ' + MC_TEXT,
    ),
    'C07': dict(
        level='model_checking', verus_units=['core', 'redtasks', 'colx', 'merge'],
        kani=True,
        kani_select=dict(quick=r'^k_task_(map_fil|filtermap_fil)_col_x_n3|^k_glue_map_fil_col_x_n2c1|^k_api_par2_(map|fil)_collect_x|^k_api_seq_empty_collect_n' + COMP,
                         thorough=r'^k_task_\w+_col_x_|^k_glue_\w+_col_x_|^k_api_\w+_collect_x_n|^k_api_seq_\w+_collect_n' + COMP),
        trusted_base=[T1, T4, T5, RSCHED, STUBS, MODEL],
        assumptions=[TASK_BOUND, 'flat_map collect_x kernels are in the thorough tier only (each harness needs 6-10 min of CBMC time)'],
        explanation='Verus (unbounded): Runner::run_map keeps exactly one vector per worker; in the three collect_x kernel tasks the worker vector keeps what it collected and its length is the sum of the survivors of the chunks it pulled (RW25/RW26); the three dispatching collect_x terminals (unit colx) return SplitVec::from(collect()) when sequential and otherwise the output of the unordered kernel for the parameters of the computation, source and closures; lemma L4 (the per-worker survivor counts add up). Kani (bounded): the 17 closure-composition sites of src/par in sequential mode (count and non-commutative reduce against the std chain); each collect_x kernel task returns the multiset of survivors of its blocks; glue with the real SplitVec::append and collect_x through the API are multiset-equal to the std chain. ' + MC_TEXT,
    ),
    'C08': dict(
        level='proof', verus_units=['core', 'dispatch', 'into', 'colx'],
        kani=True,
        kani_select=dict(quick=r'^k_pair_|^k_lazy_|^k_order_|^k_api_seq_(empty_collect_vec|fil_collect_vec|map_fil_count|map_fil_reduce|map_fil_find|fil_first|map_any|fil_for_each|empty_count)',
                         thorough=r'^k_pair_|^k_lazy_|^k_order_|^k_api_seq_'),
        trusted_base=[T1, T5, T7, AHW, A64, ARITH, STUBS, MODEL],
        assumptions=['workers of one run are the only threads executing closures during it and are joined before the run returns (T5)', TASK_BOUND + ' (only for the Max(1) clause: data bounded, parameters fully symbolic)'],
        explanation='Verus (unbounded): calc_num_threads(len, Max(n)) <= n; Runner::new gives 1 <= max_num_threads <= n; every run/run_map/reduce spawns between 1 and max_num_threads workers for every sequence of has_more() answers; is_sequential() <=> Max(1); the nine kernel entry points of src/core and the six filtering collect_into methods of Vec / SplitVec enter the parallel kernel (the only code that reaches the Runner) only when !is_sequential() (units dispatch, into), likewise the three dispatching collect_x terminals (unit colx). Kani: with num_threads(1) and a fully symbolic chunk_size no terminal reaches the Runner (its three entry points are replaced by assert!(false)) and nothing is pulled through the concurrent interface.',
    ),
    'C09': dict(
        level='model_checking', verus_units=['core', 'dispatch', 'into', 'colx'],
        kani=True,
        kani_select=dict(quick=r'^k_lazy_|^k_order_|^k_api_seq_', thorough=r'^k_lazy_|^k_order_|^k_api_seq_'),
        trusted_base=[T7, STUBS, MODEL],
        assumptions=[TASK_BOUND + '; chunk_size fully symbolic (Auto / Exact(c) / Min(c), any c)'],
        explanation='Verus (unbounded): is_sequential() <=> num_threads == Max(1); 18 dispatch functions (9 kernel entry points, 6 filtering collect_into methods, 3 collect_x terminals) take the sequential (plain iterator) path exactly when is_sequential() and return the result of that path. Kani (bounded in data, complete in parameters): for every terminal and iterator type with num_threads(1) the value equals the std chain and the SEQUENCE of (stage, position) closure calls is identical to the std chain (so reduce/fold are left-to-right); nothing reaches the Runner. ' + MC_TEXT,
    ),
    'C10': dict(
        level='other', verus_units=['core', 'dispatch'],
        kani=True,
        kani_select=dict(quick=r'^k_dep_|^k_task_\w+_find_n(3c1|3c2|2c1)|^k_glue_map_fil_find_|^k_api_seq_(map_fil_find|fil_first|map_any)',
                         thorough=r'^k_dep_|^k_task_\w+_find_|^k_glue_\w+_find_|^k_api_seq_\w+_(find|first|any|all)_'),
        trusted_base=[T1, T5, AHW, A64, RSCHED, STUBS, MODEL],
        assumptions=[TASK_BOUND, 'liveness under fairness (termination of the workers on an endless source) is not expressible as a contract; decided instead: the safety decomposition below, which implies the property together with T1 (after skip_to_end every pull returns None)'],
        explanation='Safety decomposition of a liveness property. Verus (unbounded): the spawn loops terminate (decreases) after at most max_num_threads spawns, and do_spawn / next_chunk_size refuse as soon as has_more() is No. Kani (bounded): a worker that finds a match has called skip_to_end and performs no further pull, elements of its later chunks are never evaluated, a worker that sees None returns (constant = 1 chunk per worker); in sequential mode the call sequence stops at the first match (equals std find). Verus (unbounded, unit dispatch): the three find dispatchers enter the parallel kernel only when not sequential and return the kernel result of the mode.',
    ),
    'C11': dict(
        level='proof', verus_units=['core', 'redtasks', 'tasks'],
        kani=True,
        kani_timeout='20m',
        kani_select=dict(quick=r'^k_pair_|^k_task_\w+_n3c2_m01|^k_task_flatmap_fil_(cnt|find|red)_n1c2_m1|^k_glue_(map_fil|filtermap_fil)_(cnt|find)_n3c2', thorough=r'^k_pair_|^k_task_\w+c[234]_|^k_glue_\w+c[234]_'),
        trusted_base=[T1, T5, AHW, A64, ARITH, STUBS, MODEL],
        assumptions=['T1: a pull of size c takes c consecutive elements, fewer only at the end of the source', TASK_BOUND + ' (only for "each kernel forwards its chunk size unchanged to every pull")'],
        explanation='Verus (unbounded): calc_chunk_size maps Exact(x) to Exact(x); next_chunk_size* returns Some(x) under Exact(x); the spawn log of run/run_map/reduce is constantly x for every has_more() history and every thread count. Verus (unbounded, units tasks and redtasks): in all 16 kernel task functions (4 ordered collect, 3 reduce, 3 count, 3 collect_x, 3 find; the find tasks with RW32/RW33 assuming the adaptor chain over one chunk) every pull requests exactly the chunk size handed to the worker -- the element-wise pulls only when it is 1 (precondition `handed()` on every pull method of the iterator stand-in). Kani (bounded): the same, on small shapes, for all task functions (pull log of the model iterator), including the chunked arm of the flat_map tasks on a one-element input.',
    ),
    'C12': dict(
        level='proof', verus_units=['core'],
        kani=True,
        kani_select=dict(quick=r'^k_lazy_\w+', thorough=r'^k_lazy_|^k_glue_\w+_(cnt|find)_n3'),
        trusted_base=[T7, A64, STUBS, MODEL],
        assumptions=['the 8 eager transformation sites run their materialising collect over a 1-element (3 sites) or empty (5 sites) source'],
        explanation='Verus (unbounded): Default, From<usize>, with_num_threads, with_chunk_size, is_sequential, sequential() against their specs for all inputs. Kani (loop-free => complete): for each of the 8 iterator types, each of map/filter/flat_map/filter_map keeps params() for fully symbolic Params, num_threads(n)/chunk_size(c) report Auto for 0 and Max(n)/Exact(c) otherwise and keep the other field.',
    ),
    'C13': dict(
        level='model_checking', verus_units=['merge', 'core'],
        kani=True,
        kani_select=dict(quick=r'^k_drop_|^k_dep_heap|^k_dep_bag', thorough=r'^k_drop_|^k_dep_heap|^k_dep_bag'),
        trusted_base=[T1, T2, T3, T4, T5, ASPEC, A64],
        assumptions=['the final `set_len(0)` loop of the merge is accepted by Verus but its effect (lengths 0) is not proved (iter_mut prophecy specs); drops inside the dependencies under real concurrency are not covered', TASK_BOUND + ' (drop harnesses: 3 owned items with drop counters, real ConIterOfVec, one worker)'],
        explanation='Verus (unbounded, real text): the merge reads every (vector, index) slot exactly once (ghost ledger `reads` is a bijection onto all slots) and pushes exactly that value to the output, so each value is owned exactly once by the output; every source vector is emptied at exit and emptied by set_len (ghost marker: no other way of shortening, which would drop the moved-out slots again, satisfies the cleanup invariant); Runner::run_map hands back every worker vector exactly once. Kani (bounded): a drop-counting item type through filter+collect (merge path), map+collect (ordered bag path) and find with early exit over the real ConIterOfVec: after the result is dropped every item has been dropped exactly once, none twice before.',
    ),
    'C15': dict(
        level='proof', verus_units=['core', 'into', 'dispatch', 'colx'],
        kani=True,
        kani_select=dict(quick=r'^k_pair_|^k_dep_huge|^k_glue_map_fil_(cnt|find)_n3c1|^k_glue_filtermap_fil_find_n3c1|^k_glue_map_fil_red_n3c1', thorough=r'^k_pair_|^k_dep_huge|^k_glue_'),
        trusted_base=[T1, T5, AHW, A64, ASPEC, ARITH, STUBS, MODEL],
        assumptions=['domain restriction (known finding KF-C15-1): chunk sizes c with len + c*(T+1) > usize::MAX wrap the dependency\'s position counter; the contracts do not cover them', TASK_BOUND + ' (only for "result independent of worker count / chunk size")'],
        explanation='Verus (unbounded): every arithmetic operation, assert!, expect, index and division in parameter resolution (calc_num_threads, calc_chunk_size, div_ceil, find_chunk_size, min_chunk_size, lag/fibonacci) and in the Runner is safe for all inputs; chunk >= 1, threads >= 1; the spawn loops terminate; the map-only collect_into targets always have room for every position written (no capacity panic that depends on the parameters). Kani (bounded): kernels agree with the parameter-free sequential oracle for the worker counts / chunk sizes of the shapes.',
    ),
    'C16': dict(
        level='proof', verus_units=['core'],
        kani=True,
        kani_select=dict(quick=r'^k_lazy_', thorough=r'^k_lazy_'),
        trusted_base=[STUBS, MODEL, A64],
        assumptions=['parametricity in the item type', '5 of the 8 eager sites are observed over an EMPTY source (the eager kernels pull once and find nothing): enough to observe that the source was touched at construction time'],
        explanation='Verus (unbounded): with_num_threads / with_chunk_size replace exactly one field (the parameters in effect at the terminal call are the last ones set). Kani (loop-free => complete per transformation function): for each of the 8 iterator types x {map, filter, flat_map, filter_map, num_threads, chunk_size} and for Iterator::par(): after the call no user closure has run, no element was pulled, the source iterator was not advanced. The eager sites fail this with a concrete trace and are recorded as known findings.',
    ),
}

NOT_APPLICABLE = {
    'C14': 'panic propagation / unwinding has no semantics in Verus (a reachable panic is a failed obligation) nor in Kani (panic=abort, no catch_unwind, no threads); no pre/postcondition can express "propagates as a panic and drops nothing twice while unwinding"',
}

SETUP_CMD = 'true'
HOOK_GUARD = 'none: no hook in /repo; harness modules are injected into a scratch copy of the crate under cfg(kani)'
HOOK_ENABLE = 'not needed (cargo kani sets cfg(kani) in the scratch copy)'
HOOK_COMMITS = []
