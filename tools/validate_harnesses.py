#!/usr/bin/env python3
"""validate_harnesses.py [--only-thorough] [--pattern RE] [-j N] [--budget S] [--out FILE]

Maintenance tool (not registered in MANIFEST.json): runs every generated Kani harness of the thorough tier once
against /repo's current tree and prints one line per harness.  Used to make sure that no thorough-only harness
fails on the unchanged tree (which would make a thorough check raise a false alarm) and to find the harnesses
that exceed the resource limits (they are listed in DESIGN.md as not decided).
"""
import argparse
import json
import os
import re
import shutil
import sys
import tempfile

HERE = os.path.dirname(os.path.abspath(__file__))
sys.path.insert(0, HERE)
import kani_gen  # noqa: E402
import kani_run  # noqa: E402


def update_validated(res):
    """kani/validated.json: `ok` = thorough-only harnesses seen to pass non-vacuously on /repo (the thorough tier schedules only
    these, see kani_run.select); `not_decided` = resource limit / vacuous cover; `failed` must stay empty on the unchanged tree."""
    path = os.path.join(os.path.dirname(HERE), 'kani', 'validated.json')
    try:
        cur = json.load(open(path))
    except (OSError, ValueError):
        cur = dict(ok=[], not_decided={}, failed={})
    ok = set(cur.get('ok', []))
    nd = dict(cur.get('not_decided', {}))
    failed = dict(cur.get('failed', {}))
    for n, r in res.items():
        ok.discard(n)
        nd.pop(n, None)
        failed.pop(n, None)
        if r['status'] == 'ok' and not r['vacuous']:
            ok.add(n)
        elif r['status'] == 'failed':
            failed[n] = r['failed_checks'][:3]
        else:
            nd[n] = 'vacuous cover' if r['vacuous'] else r['status']
    with open(path, 'w') as f:
        json.dump(dict(note='written by tools/validate_harnesses.py from runs against /repo; see DESIGN.md 0A', ok=sorted(ok), not_decided=nd, failed=failed), f, indent=1)


def main():
    ap = argparse.ArgumentParser()
    ap.add_argument('--repo', default='/repo')
    ap.add_argument('--pattern', default='.')
    ap.add_argument('--only-thorough', action='store_true')
    ap.add_argument('--skip-validated', action='store_true', help='skip harnesses already listed in kani/validated.json')
    ap.add_argument('-j', type=int, default=12)
    ap.add_argument('--budget', type=int, default=3600, help='overall budget per batch (s)')
    ap.add_argument('--batch', type=int, default=48)
    ap.add_argument('--timeout', default='20m')
    ap.add_argument('--out', default='/var/tmp/validate_harnesses.json')
    a = ap.parse_args()
    kani_gen.generate_all()
    names = [n for n, h in sorted(kani_gen.HARNESSES.items()) if re.search(a.pattern, n) and (not a.only_thorough or h['tier'] != 'quick')]
    # cheap and central families first: kernel tasks, glue, settings pairs, drops, then the API chains (sequential before two workers)
    prio = ['k_task_', 'k_taskkeys_', 'k_glue_', 'k_pair_', 'k_drop_', 'k_api_seq', 'k_api_par2']
    names.sort(key=lambda n: (min([i for i, p in enumerate(prio) if n.startswith(p)] + [len(prio)]), n))
    if a.skip_validated:
        try:
            cur = json.load(open(os.path.join(os.path.dirname(HERE), 'kani', 'validated.json')))
            seen = set(cur.get('ok', [])) | set(cur.get('not_decided', {})) | set(cur.get('failed', {}))
            names = [n for n in names if n not in seen]
        except (OSError, ValueError):
            pass
    d = tempfile.mkdtemp(prefix='orxverif.val.', dir='/var/tmp')
    try:
        crate = kani_run.prepare_scratch(a.repo, os.path.join(d, 'kani'))
        print(len(names), 'harnesses', d, flush=True)
        res = {}
        k = 0
        while k < len(names):
            batch = names[k:k + a.batch]
            k += a.batch
            # one cargo-kani invocation per batch: a crash of the driver loses one batch only
            out = kani_run.run_harnesses(crate, batch, jobs=a.j, harness_timeout=a.timeout, overall_timeout=a.budget)
            for n in batch:
                r = out['results'][n]
                h = kani_gen.HARNESSES[n]
                exp, cmin = h.get('covers_expected'), h.get('covers_min')
                vac = r['status'] == 'ok' and (r['checks'] == 0 or (exp is not None and r['covers_sat'] < exp) or
                                               (exp is None and cmin is None and r['covers_sat'] < r['covers_total']) or
                                               (cmin is not None and r['covers_sat'] < cmin))
                res[n] = dict(status=r['status'], vacuous=vac, checks=r['checks'], failed=r['failed'], covers='%d/%d' % (r['covers_sat'], r['covers_total']),
                              time_s=r['time_s'], failed_checks=r['failed_checks'])
                print('%-64s %-12s %s checks=%d failed=%d covers=%d/%d t=%.0fs %s' % (
                    n, r['status'], 'VACUOUS' if vac else '', r['checks'], r['failed'], r['covers_sat'], r['covers_total'], r['time_s'],
                    '; '.join(r['failed_checks'])[:300]), flush=True)
            print('batch wall %.0fs rc=%s %s' % (out['wall_s'], out['rc'], out['compile_error'] or ''), flush=True)
            with open(a.out, 'w') as f:
                json.dump(res, f, indent=1)
            if os.path.realpath(a.repo) == '/repo':
                update_validated(res)
    finally:
        shutil.rmtree(d, ignore_errors=True)


if __name__ == '__main__':
    main()
