use vstd::prelude::*;
use std::num::NonZeroUsize;
verus! {

#[verifier::external_type_specification]
#[verifier::external_body]
pub struct ExIoError(std::io::Error);

pub fn maybe_reduce<T, R>(reduce: R, a: Option<T>, b: Option<T>) -> (r: Option<T>)
where
    R: Fn(T, T) -> T,
    requires forall|x: T, y: T| reduce.requires((x, y)),
    ensures
        a is None && b is None ==> r is None,
        a is None && b is Some ==> r == b,
        a is Some && b is None ==> r == a,
        a is Some && b is Some ==> r is Some && reduce.ensures((a->Some_0, b->Some_0), r->Some_0),
{
    match (a, b) {
        (None, None) => None,
        (None, Some(b)) => Some(b),
        (Some(a), None) => Some(a),
        (Some(a), Some(b)) => Some(reduce(a, b)),
    }
}

#[derive(Clone, Copy, Debug, PartialEq, Eq)]
pub enum NumThreads {
    Auto,
    Max(NonZeroUsize),
}

exec const SEQUENTIAL: NumThreads = NumThreads::Max(unsafe { NonZeroUsize::new_unchecked(1) });

impl From<usize> for NumThreads {
    fn from(value: usize) -> Self {
        match value {
            0 => Self::Auto,
            _ => Self::Max(NonZeroUsize::new(value).expect("must be positive")),
        }
    }
}

const MAX_UNSET_NUM_THREADS: usize = 8;

fn set_num_threads(
    input_len: Option<usize>,
    available_threads: Result<NonZeroUsize, std::io::Error>,
    num_threads: usize,
) -> usize {
    match available_threads {
        Err(e) => {
            debug_assert!(false, "Failed to get maximum available parallelism (std::thread::available_parallelism()); falling back to sequential execution.: {}", e);
            input_len.unwrap_or(num_threads).min(num_threads)
        }
        Ok(available_threads) => input_len
            .unwrap_or(usize::MAX)
            .min(num_threads)
            .min(available_threads.into()),
    }
}

} // verus!
fn main() {}
