pub mod model_iter;
use model_iter::*;
use crate::core::runner::{ParTask, Runner};
use crate::Params;
use orx_concurrent_iter::ConcurrentIterX;
use std::cell::Cell;
const LEN: usize = 3;

pub static mut CUR: u8 = 0;

pub fn stub_run_map<I, F, Out>(_params: Params, _task_type: ParTask, iter: &I, thread_task: &F) -> Vec<Out>
where
    I: ConcurrentIterX,
    F: Fn(usize) -> Out + Sync,
    Out: Send + Sync,
{
    // contract of Runner::run_map (proved by Verus on the extracted text): k >= 1 tasks, each given a chunk size >= 1,
    // results returned in spawn order. Here: 2 tasks, common chunk size taken from the model.
    let c = unsafe { CSIZE };
    let mut v = Vec::new();
    unsafe { CUR = 0; }
    v.push(thread_task(c));
    unsafe { CUR = 1; }
    v.push(thread_task(c));
    let _ = iter;
    v
}
pub static mut CSIZE: usize = 1;
pub static mut SWITCH: Option<fn(u8)> = None;
static mut ITER_PTR: *const ModelIter = std::ptr::null();
fn switch_to(t: u8) { unsafe { (*ITER_PTR).cur.set(t); } }

fn mk_iter(c: usize) -> ModelIter {
    let data: [u8; MAXN] = kani::any();
    let len: usize = LEN;
    let owner: [u8; MAXN] = [1, 0, 0, 0];
    let cut: usize = MAXN;
    ModelIter {
        data, len, c, owner, cur: Cell::new(0),
        next_block: [Cell::new(0), Cell::new(0), Cell::new(0)],
        cut, skipped: Cell::new(false), pulls: Cell::new(0),
        bad_pull_size: Cell::new(false), pull_after_none: Cell::new(false),
        got_none: [Cell::new(false), Cell::new(false), Cell::new(false)],
    }
}

#[kani::proof]
#[kani::unwind(6)]
#[kani::stub(crate::core::runner::Runner::run_map, stub_run_map)]
#[kani::stub(crate::core::map_fil_col::heap_sort_into_vec, stub_heap_sort_into_vec)]
fn vk_map_fil_col_vec() {
    let c: usize = 2;
    let mut it = mk_iter(c);
    it.cut = MAXN; // no early exit in collect
    let data = it.data; let len = it.len;
    let mt: [u8; 4] = kani::any();
    let ft: [bool; 4] = kani::any();
    let map = move |x: u8| mt[(x % 4) as usize];
    let fil = move |y: &u8| ft[(*y % 4) as usize];
    unsafe { CSIZE = c; }
    let mut out: Vec<u8> = vec![7];
    let params = Params::default();
    // iter moved into kernel: keep pointer valid by passing a reference-wrapper? kernel takes I by value.
    crate::core::map_fil_col::par_map_fil_col_vec(params, it, map, fil, &mut out);
    // oracle
    let mut exp: Vec<u8> = vec![7];
    for i in 0..len { let y = map(data[i]); if fil(&y) { exp.push(y); } }
    assert!(out.len() == exp.len());
    let mut j = 0; while j < out.len() { assert!(out[j] == exp[j]); j += 1; }
}


pub fn stub_heap_sort_into_vec<Out, Key>(mut vectors: Vec<Vec<(Key, Out)>>, output: &mut Vec<Out>)
where
    Key: Copy + PartialOrd,
{
    // selection merge with cursors; moves values out by ptr::read like the real code
    let n = vectors.len();
    let mut cur = [0usize; 3];
    loop {
        let mut best: Option<usize> = None;
        let mut i = 0;
        while i < n {
            if cur[i] < vectors[i].len() {
                match best {
                    None => best = Some(i),
                    Some(b) => { if vectors[i][cur[i]].0 < vectors[b][cur[b]].0 { best = Some(i); } }
                }
            }
            i += 1;
        }
        match best {
            None => break,
            Some(b) => {
                let p = vectors[b].as_mut_ptr();
                output.push(unsafe { p.add(cur[b]).read().1 });
                cur[b] += 1;
            }
        }
    }
    for v in vectors.iter_mut() { unsafe { v.set_len(0) }; }
}
