use vstd::prelude::*;
use std::num::NonZeroUsize;
verus! {

#[derive(Clone, Copy, Debug, PartialEq, Eq)]
pub enum NumThreads {
    Auto,
    Max(NonZeroUsize),
}
#[derive(Clone, Copy, Debug, PartialEq, Eq)]
pub enum ChunkSize {
    Auto,
    Min(NonZeroUsize),
    Exact(NonZeroUsize),
}

exec const SEQUENTIAL: NumThreads = NumThreads::Max(unsafe { NonZeroUsize::new_unchecked(1) });

impl Default for NumThreads {
    fn default() -> Self {
        Self::Auto
    }
}

impl From<usize> for NumThreads {
    fn from(value: usize) -> Self {
        match value {
            0 => Self::Auto,
            _ => Self::Max(NonZeroUsize::new(value).expect("must be positive")),
        }
    }
}

impl NumThreads {
    pub fn sequential() -> Self {
        SEQUENTIAL
    }
}

#[derive(Clone, Copy, Debug, PartialEq, Eq)]
pub struct Params {
    pub num_threads: NumThreads,
    pub chunk_size: ChunkSize,
}

impl Params {
    pub fn is_sequential(self) -> bool {
        self.num_threads == NumThreads::sequential()
    }

    pub(crate) fn with_num_threads(self, num_threads: impl Into<NumThreads>) -> Self {
        Self {
            num_threads: num_threads.into(),
            chunk_size: self.chunk_size,
        }
    }
}

} // verus!
fn main() {}
