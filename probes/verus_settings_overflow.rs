use vstd::prelude::*;
use std::cmp::Ordering;
verus! {

pub fn div_ceil(number: usize, divider: usize) -> (r: usize)
    requires divider > 0,
    ensures r as int * divider as int >= number as int, (r as int - 1) * (divider as int) < number as int,
{
    let x = number / divider;
    let remainder = number - x * divider;
    x + if remainder > 0 { 1 } else { 0 }
}

#[derive(Clone, Copy, Debug)]
pub enum ParTask {
    Collect,
    EarlyReturn,
    Reduce,
}

const INITIAL_CHUNK_SIZE: usize = 1 << 20;

const DESIRED_MIN_CHUNK_SIZE: usize = 64;

const fn min_required_len(task: ParTask, one_round_len: usize) -> usize {
    match task {
        ParTask::Collect => one_round_len * 4,
        ParTask::Reduce => one_round_len * 4,
        ParTask::EarlyReturn => one_round_len * 8,
    }
}

fn min_chunk_size(input_len: Option<usize>, max_num_threads: usize, chunk_size: usize) -> usize {
    match input_len {
        None => chunk_size,
        Some(0) => 1,
        Some(len) => {
            let one_round_len = max_num_threads * chunk_size;
            match one_round_len.cmp(&len) {
                Ordering::Greater => div_ceil(len, max_num_threads),
                _ => chunk_size,
            }
        }
    }
}

pub struct Runner { max_num_threads: usize }
impl Runner {
    pub fn do_spawn(&self, num_spawned: usize) -> bool {
        match num_spawned {
            x if x >= self.max_num_threads - 1 => false,
            _ => true,
        }
    }
}

} // verus!
fn main() {}
