use vstd::prelude::*;
verus! {

pub enum HasMore { Yes(usize), Maybe, No }

#[derive(Clone, Copy)]
pub enum ResolvedChunkSize { Min(usize), Exact(usize) }
impl ResolvedChunkSize {
    pub open spec fn sinner(self) -> usize { match self { Self::Min(x) => x, Self::Exact(x) => x } }
    fn inner(self) -> (r: usize) ensures r == self.sinner() {
        match self {
            Self::Min(x) => x,
            Self::Exact(x) => x,
        }
    }
}

pub struct Runner { max_num_threads: usize, chunk_size: ResolvedChunkSize }

#[verifier::external_body]
pub struct Scope { _p: core::marker::PhantomData<()> }
impl Scope {
    pub uninterp spec fn view(&self) -> Seq<usize>;
    #[verifier::external_body]
    fn spawn(&mut self, chunk: usize)
        ensures final(self)@ == old(self)@.push(chunk)
    { unimplemented!() }
}
#[verifier::external_body]
pub struct It { _p: core::marker::PhantomData<()> }
impl It {
    #[verifier::external_body]
    fn has_more(&self) -> HasMore { unimplemented!() }
}

const LAG_PERIODICITY: usize = 4;

impl Runner {
    spec fn wf(&self) -> bool { self.max_num_threads >= 1 && self.chunk_size.sinner() >= 1 }

    fn do_spawn(&self, num_spawned: usize, has_more: HasMore) -> (b: bool)
        requires self.wf(),
        ensures b ==> num_spawned + 1 < self.max_num_threads,
    {
        match num_spawned {
            x if x >= self.max_num_threads - 1 => false,
            _ => !matches!(has_more, HasMore::No),
        }
    }
    fn next_chunk_size(&self, num_spawned: usize, has_more: HasMore) -> (r: Option<usize>)
        requires self.wf(),
        ensures r matches Some(c) ==> c >= 1 && num_spawned + 1 < self.max_num_threads,
    {
        match has_more {
            HasMore::No => None,
            _ => match num_spawned { x if x >= self.max_num_threads - 1 => None, _ => Some(self.chunk_size.inner()) },
        }
    }

    fn run(runner: &Runner, iter: &It, s: &mut Scope) -> (num: usize)
        requires runner.wf(), old(s)@.len() == 0,
        ensures 1 <= final(s)@.len() <= runner.max_num_threads, num == final(s)@.len(),
            forall|i: int| 0 <= i < final(s)@.len() ==> final(s)@[i] >= 1,
    {
        let mut num_spawned = 0;
        {
            let mut chunk: usize = runner.chunk_size.inner();
            'lag_period: loop
                invariant runner.wf(), num_spawned == s@.len(), num_spawned < runner.max_num_threads, chunk >= 1,
                    forall|i: int| 0 <= i < s@.len() ==> s@[i] >= 1,
                decreases runner.max_num_threads - num_spawned, 
            {
                let ghost n0 = num_spawned;
                for _i in 0..LAG_PERIODICITY
                    invariant runner.wf(), num_spawned == s@.len(), num_spawned < runner.max_num_threads, chunk >= 1, num_spawned == n0 + _i,
                        forall|i: int| 0 <= i < s@.len() ==> s@[i] >= 1,
                {
                    match runner.do_spawn(num_spawned, iter.has_more()) {
                        false => break 'lag_period,
                        true => {
                            s.spawn(chunk);
                            num_spawned += 1;
                        }
                    }
                }

                match runner.next_chunk_size(num_spawned, iter.has_more()) {
                    None => break 'lag_period,
                    Some(c) => chunk = c,
                }
            }

            s.spawn(chunk);
            num_spawned += 1;
        };

        num_spawned
    }
}

} // verus!
fn main() {}
