#![feature(allocator_api)]
use vstd::prelude::*;
verus! {

pub uninterp spec fn klt<K>(a: K, b: K) -> bool;

#[verifier::external_body]
pub proof fn axiom_klt<K>()
    ensures
        forall|a: K| !#[trigger] klt(a, a),
        forall|a: K, b: K, c: K| #![trigger klt(a, b), klt(b, c)] klt(a, b) && klt(b, c) ==> klt(a, c),
        forall|a: K, b: K| #![trigger klt(a, b)] a != b ==> klt(a, b) || klt(b, a),
{}

#[verifier::external_body]
#[verifier::reject_recursive_types(N)]
#[verifier::reject_recursive_types(K)]
pub struct BinaryHeap<N, K> { _p: core::marker::PhantomData<(N, K)> }

impl<K: Copy + PartialOrd> BinaryHeap<usize, K> {
    pub uninterp spec fn view(&self) -> Map<usize, K>;

    #[verifier::external_body]
    fn with_capacity(n: usize) -> (h: Self)
        ensures h@ == Map::<usize, K>::empty(),
    { unimplemented!() }

    #[verifier::external_body]
    fn push(&mut self, node: usize, key: K)
        requires !old(self)@.dom().contains(node),
        ensures final(self)@ == old(self)@.insert(node, key),
    { unimplemented!() }

    #[verifier::external_body]
    fn pop_node(&mut self) -> (r: Option<usize>)
        ensures
            match r {
                None => (forall|m: usize| !old(self)@.dom().contains(m)) && final(self)@ == old(self)@,
                Some(n) => old(self)@.dom().contains(n)
                    && (forall|m: usize| old(self)@.dom().contains(m) ==> !klt(#[trigger] old(self)@[m], old(self)@[n]))
                    && final(self)@ == old(self)@.remove(n),
            },
    { unimplemented!() }

    #[verifier::external_body]
    fn push_then_pop(&mut self, node: usize, key: K) -> (r: (usize, K))
        requires !old(self)@.dom().contains(node),
        ensures
            ({
                let m0 = old(self)@.insert(node, key);
                m0.dom().contains(r.0) && r.1 == m0[r.0]
                && (forall|m: usize| m0.dom().contains(m) ==> !klt(#[trigger] m0[m], m0[r.0]))
                && final(self)@ == m0.remove(r.0)
            }),
    { unimplemented!() }
}

pub uninterp spec fn slot_val<T>(p: *mut T) -> T;
pub uninterp spec fn ptr_off<T>(p: *mut T, i: int) -> *mut T;

pub assume_specification<T, A: std::alloc::Allocator> [std::vec::Vec::<T, A>::as_mut_ptr] (v: &mut std::vec::Vec<T, A>) -> (p: *mut T)
    ensures final(v)@ == old(v)@, forall|i: int| 0 <= i < old(v)@.len() ==> slot_val(#[trigger] ptr_off(p, i)) == old(v)@[i];

pub assume_specification<T> [<*mut T>::add] (p: *mut T, i: usize) -> (q: *mut T)
    ensures q == ptr_off(p, i as int);

pub assume_specification<T> [<*mut T>::read] (p: *mut T) -> (r: T)
    ensures r == slot_val(p);

pub assume_specification<T, A: std::alloc::Allocator> [std::vec::Vec::<T, A>::set_len] (v: &mut std::vec::Vec<T, A>, n: usize)
    ensures final(v)@.len() == n;

pub open spec fn sorted_each<K, O>(V: Seq<Seq<(K, O)>>) -> bool {
    forall|v: int, i: int, j: int| 0 <= v < V.len() && 0 <= i < j < V[v].len() ==> klt(#[trigger] V[v][i].0, #[trigger] V[v][j].0)
}
pub open spec fn distinct_keys<K, O>(V: Seq<Seq<(K, O)>>) -> bool {
    forall|v: int, i: int, w: int, j: int| 0 <= v < V.len() && 0 <= i < V[v].len() && 0 <= w < V.len() && 0 <= j < V[w].len() && (v != w || i != j)
        ==> #[trigger] V[v][i].0 != #[trigger] V[w][j].0
}
pub open spec fn content<K, O>(vs: Seq<Vec<(K, O)>>) -> Seq<Seq<(K, O)>> {
    Seq::new(vs.len(), |i: int| vs[i]@)
}
pub open spec fn key_at<K, O>(V: Seq<Seq<(K, O)>>, s: (int, int)) -> K { V[s.0][s.1].0 }
pub open spec fn head_key<K, O>(V: Seq<Seq<(K, O)>>, ind: Seq<usize>, v: int) -> K { V[v][ind[v] as int].0 }

/// the postcondition: `reads` enumerates every slot exactly once, in increasing key order
pub open spec fn is_merge_order<K, O>(V: Seq<Seq<(K, O)>>, reads: Seq<(int, int)>, pos: Seq<Seq<int>>) -> bool {
    &&& pos.len() == V.len()
    &&& forall|v: int| 0 <= v < V.len() ==> (#[trigger] pos[v]).len() == V[v].len()
    &&& forall|v: int, i: int| 0 <= v < V.len() && 0 <= i < V[v].len() ==> 0 <= #[trigger] pos[v][i] < reads.len() && reads[pos[v][i]] == (v, i)
    &&& forall|j: int| 0 <= j < reads.len() ==> 0 <= (#[trigger] reads[j]).0 < V.len() && 0 <= reads[j].1 < V[reads[j].0].len()
    &&& forall|j: int, k: int| 0 <= j < k < reads.len() ==> klt(key_at(V, #[trigger] reads[j]), key_at(V, #[trigger] reads[k]))
}

pub open spec fn merged_into<K, O>(V: Seq<Seq<(K, O)>>, out0: Seq<O>, out1: Seq<O>, reads: Seq<(int, int)>, pos: Seq<Seq<int>>) -> bool {
    &&& is_merge_order(V, reads, pos)
    &&& out1.len() == out0.len() + reads.len()
    &&& (forall|j: int| 0 <= j < out0.len() ==> out1[j] == out0[j])
    &&& (forall|j: int| 0 <= j < reads.len() ==> #[trigger] out1[out0.len() + j] == V[reads[j].0][reads[j].1].1)
}

#[verifier::exec_allows_no_decreases_clause]
#[verifier::loop_isolation(false)]
fn heap_sort_into_vec<Out, Key>(mut vectors: Vec<Vec<(Key, Out)>>, output: &mut Vec<Out>)
where
    Key: Copy + PartialOrd,
    requires
        sorted_each(content(vectors@)),
        distinct_keys(content(vectors@)),
    ensures
        exists|reads: Seq<(int, int)>, pos: Seq<Seq<int>>| #[trigger] merged_into(content(vectors@), old(output)@, final(output)@, reads, pos),
{
    let ghost V = content(vectors@);
    let ghost out0 = output@;
    let ghost n = V.len() as int;
    proof {
        axiom_klt::<Key>();
        assert forall|w: int| 0 <= w < n implies (#[trigger] V[w]).len() <= usize::MAX by {
            assert(vectors@[w].len() == V[w].len());
        }
    }
    let mut queue = BinaryHeap::with_capacity(vectors.len());
    let mut indices = vec![0; vectors.len()];

    for v in 0..vectors.len()
        invariant
            n == V.len(), vectors@.len() == n, content(vectors@) == V,
            indices@.len() == n, forall|w: int| 0 <= w < n ==> #[trigger] indices@[w] == 0,
            forall|w: usize| #[trigger] queue@.dom().contains(w) <==> ((w as int) < v && V[w as int].len() > 0),
            forall|w: usize| #[trigger] queue@.dom().contains(w) ==> queue@[w] == V[w as int][0].0,
    {
        let vec = &vectors[v];
        assert(vec@ == V[v as int]);
        if let Some(x) = vec.get(indices[v]) {
            queue.push(v, x.0);
        }
    }
    let mut curr_v = queue.pop_node();
    let ghost mut reads: Seq<(int, int)> = Seq::empty();
    let ghost mut pos: Seq<Seq<int>> = Seq::new(n as nat, |i: int| Seq::<int>::empty());
    let ghost mut remaining: int = 0;

    while let Some(v) = curr_v
        invariant
            n == V.len(), vectors@.len() == n, indices@.len() == n,
            sorted_each(V), distinct_keys(V),
            forall|w: int| 0 <= w < n ==> (#[trigger] V[w]).len() <= usize::MAX,
            forall|a: Key| !#[trigger] klt(a, a),
            forall|a: Key, b: Key, c: Key| #![trigger klt(a, b), klt(b, c)] klt(a, b) && klt(b, c) ==> klt(a, c),
            forall|a: Key, b: Key| #![trigger klt(a, b)] a != b ==> klt(a, b) || klt(b, a),
            forall|w: int| 0 <= w < n ==> (#[trigger] vectors@[w])@ == V[w],
            forall|w: int| 0 <= w < n ==> 0 <= #[trigger] indices@[w] <= V[w].len(),
            forall|w: usize| #[trigger] queue@.dom().contains(w) ==> (w as int) < n && indices@[w as int] < V[w as int].len() && queue@[w] == head_key(V, indices@, w as int),
            match curr_v {
                Some(c) => (c as int) < n && indices@[c as int] < V[c as int].len() && !queue@.dom().contains(c)
                    && (forall|m: usize| queue@.dom().contains(m) ==> !klt(#[trigger] queue@[m], head_key(V, indices@, c as int))),
                None => forall|m: usize| !queue@.dom().contains(m),
            },
            forall|w: usize| (w as int) < n && Some(w) != curr_v ==> (indices@[w as int] < V[w as int].len() <==> #[trigger] queue@.dom().contains(w)),
            pos.len() == n,
            forall|w: int| 0 <= w < n ==> (#[trigger] pos[w]).len() == indices@[w],
            forall|w: int, i: int| 0 <= w < n && 0 <= i < indices@[w] ==> 0 <= #[trigger] pos[w][i] < reads.len() && reads[pos[w][i]] == (w, i),
            forall|j: int| 0 <= j < reads.len() ==> 0 <= (#[trigger] reads[j]).0 < n && 0 <= reads[j].1 < indices@[reads[j].0],
            output@.len() == out0.len() + reads.len(),
            forall|j: int| 0 <= j < out0.len() ==> output@[j] == out0[j],
            forall|j: int| 0 <= j < reads.len() ==> #[trigger] output@[out0.len() + j] == V[reads[j].0][reads[j].1].1,
            forall|j: int, k: int| 0 <= j < k < reads.len() ==> klt(key_at(V, #[trigger] reads[j]), key_at(V, #[trigger] reads[k])),
            forall|j: int, w: int| 0 <= j < reads.len() && 0 <= w < n && indices@[w] < V[w].len() ==> klt(key_at(V, #[trigger] reads[j]), #[trigger] head_key(V, indices@, w)),
    {
        let ghost ind0 = indices@;
        let ghost q0 = queue@;
        let ghost reads0 = reads;
        let idx = indices[v];
        indices[v] += 1;

        curr_v = match vectors[v].get(indices[v]) {
            Some(x) => Some(queue.push_then_pop(v, x.0).0),
            None => queue.pop_node(),
        };

        let ptr = vectors[v].as_mut_ptr();
        output.push(unsafe { ptr.add(idx).read().1 });
        proof {
            pos = pos.update(v as int, pos[v as int].push(reads.len() as int));
            reads = reads.push((v as int, idx as int));
            let k0 = V[v as int][idx as int].0;
            assert(key_at(V, (v as int, idx as int)) == k0);
            assert forall|j: int, w: int| 0 <= j < reads.len() && 0 <= w < n && indices@[w] < V[w].len()
                implies klt(key_at(V, #[trigger] reads[j]), #[trigger] head_key(V, indices@, w)) by {
                if w == v as int {
                    assert(klt(V[w][idx as int].0, V[w][idx as int + 1].0));
                    if j < reads0.len() {
                        assert(klt(key_at(V, reads0[j]), head_key(V, ind0, w)));
                    }
                } else {
                    assert(head_key(V, indices@, w) == head_key(V, ind0, w));
                    if j < reads0.len() {
                        assert(klt(key_at(V, reads0[j]), head_key(V, ind0, w)));
                    } else {
                        assert(q0.dom().contains(w as usize));
                        assert(q0[w as usize] == head_key(V, ind0, w));
                        assert(!klt(q0[w as usize], k0));
                        assert(V[w][ind0[w] as int].0 != V[v as int][idx as int].0);
                    }
                }
            }
        }
    }
    proof {
        assert forall|w: int| 0 <= w < n implies indices@[w] == V[w].len() by {
            assert(!queue@.dom().contains(w as usize));
        }
        assert(is_merge_order(V, reads, pos));
        assert(merged_into(V, out0, output@, reads, pos));
    }

    for vec in vectors.iter_mut() {
        unsafe { vec.set_len(0) };
    }
}

} // verus!
fn main() {}
