//! Model of the orx-concurrent-iter protocol (assumed contract T1) with a symbolic
//! chunk -> thread assignment. Single-threaded (Kani); "threads" are run one after another.
use orx_concurrent_iter::iter::buffered::buffered_chunk::{BufferedChunk, BufferedChunkX};
use orx_concurrent_iter::{ConcurrentIter, ConcurrentIterX, Next, NextChunk};
use std::cell::Cell;

pub const MAXN: usize = 4;

pub struct ModelIter {
    pub data: [u8; MAXN],
    pub len: usize,
    /// block size shared by all threads in this run
    pub c: usize,
    /// owner[k] = thread owning block k
    pub owner: [u8; MAXN],
    /// current thread
    pub cur: Cell<u8>,
    /// per-thread next block to look at
    pub next_block: [Cell<usize>; 3],
    /// frontier: blocks > cut are never delivered once someone skipped (symbolic upfront)
    pub cut: usize,
    pub skipped: Cell<bool>,
    pub pulls: Cell<usize>,
    pub bad_pull_size: Cell<bool>,
    pub pull_after_none: Cell<bool>,
    pub got_none: [Cell<bool>; 3],
}

unsafe impl Sync for ModelIter {}
unsafe impl Send for ModelIter {}

impl ModelIter {
    fn nblocks(&self) -> usize { (self.len + self.c - 1) / self.c }
    fn take_block(&self, req: usize) -> Option<usize> {
        let t = unsafe { super::CUR } as usize;
        if req != self.c { self.bad_pull_size.set(true); }
        if self.got_none[t].get() { self.pull_after_none.set(true); }
        self.pulls.set(self.pulls.get() + 1);
        let mut k = self.next_block[t].get();
        let nb = self.nblocks();
        while k < nb {
            if k > self.cut { break; }
            if self.owner[k] as usize == t {
                self.next_block[t].set(k + 1);
                return Some(k);
            }
            k += 1;
        }
        self.next_block[t].set(nb);
        self.got_none[t].set(true);
        None
    }
    fn block_range(&self, k: usize) -> (usize, usize) {
        let b = k * self.c;
        let e = if b + self.c < self.len { b + self.c } else { self.len };
        (b, e)
    }
}

pub struct ModelBuf { c: usize }

impl BufferedChunkX<u8> for ModelBuf {
    type ConIter = ModelIter;
    fn new(chunk_size: usize) -> Self { Self { c: chunk_size } }
    fn chunk_size(&self) -> usize { self.c }
    fn pull_x(&mut self, iter: &ModelIter) -> Option<impl ExactSizeIterator<Item = u8>> {
        iter.next_chunk_x(self.c)
    }
}
impl BufferedChunk<u8> for ModelBuf {
    fn pull(&mut self, iter: &ModelIter) -> Option<NextChunk<u8, impl ExactSizeIterator<Item = u8>>> {
        iter.next_chunk(self.c)
    }
}

pub struct Blk { data: [u8; MAXN], i: usize, e: usize }
impl Iterator for Blk {
    type Item = u8;
    fn next(&mut self) -> Option<u8> {
        if self.i < self.e { let x = self.data[self.i]; self.i += 1; Some(x) } else { None }
    }
}
impl ExactSizeIterator for Blk { fn len(&self) -> usize { self.e - self.i } }

impl ConcurrentIterX for ModelIter {
    type Item = u8;
    type SeqIter = Blk;
    type BufferedIterX = ModelBuf;
    fn into_seq_iter(self) -> Blk { Blk { data: self.data, i: 0, e: self.len } }
    fn next_chunk_x(&self, chunk_size: usize) -> Option<impl ExactSizeIterator<Item = u8>> {
        self.take_block(chunk_size).map(|k| { let (b, e) = self.block_range(k); Blk { data: self.data, i: b, e } })
    }
    fn next(&self) -> Option<u8> {
        self.take_block(1).map(|k| self.data[k])
    }
    fn skip_to_end(&self) { self.skipped.set(true); }
    fn try_get_len(&self) -> Option<usize> { Some(self.len) }
    fn try_get_initial_len(&self) -> Option<usize> { Some(self.len) }
}
impl ConcurrentIter for ModelIter {
    type BufferedIter = ModelBuf;
    fn next_id_and_value(&self) -> Option<Next<u8>> {
        self.take_block(1).map(|k| Next { idx: k, value: self.data[k] })
    }
    fn next_chunk(&self, chunk_size: usize) -> Option<NextChunk<u8, impl ExactSizeIterator<Item = u8>>> {
        self.take_block(chunk_size).map(|k| { let (b, e) = self.block_range(k); NextChunk { begin_idx: b, values: Blk { data: self.data, i: b, e } } })
    }
}
