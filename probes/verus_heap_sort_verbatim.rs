#![feature(allocator_api)]
use vstd::prelude::*;
verus! {

#[verifier::external_body]
#[verifier::reject_recursive_types(K)]
pub struct BinaryHeap<K> { _p: core::marker::PhantomData<K> }

impl<K: Copy + PartialOrd> BinaryHeap<K> {
    #[verifier::external_body]
    fn with_capacity(n: usize) -> Self { unimplemented!() }
    #[verifier::external_body]
    fn push(&mut self, node: usize, key: K) { unimplemented!() }
    #[verifier::external_body]
    fn pop_node(&mut self) -> Option<usize> { unimplemented!() }
    #[verifier::external_body]
    fn push_then_pop(&mut self, node: usize, key: K) -> (usize, K) { unimplemented!() }
}

pub uninterp spec fn slot_val<T>(p: *mut T) -> T;
pub uninterp spec fn ptr_off<T>(p: *mut T, i: int) -> *mut T;

pub assume_specification<T, A: std::alloc::Allocator> [std::vec::Vec::<T, A>::as_mut_ptr] (v: &mut std::vec::Vec<T, A>) -> (p: *mut T)
    ensures final(v)@ == old(v)@, forall|i: int| 0 <= i < old(v)@.len() ==> slot_val(ptr_off(p, i)) == old(v)@[i];

pub assume_specification<T> [<*mut T>::add] (p: *mut T, i: usize) -> (q: *mut T)
    ensures q == ptr_off(p, i as int);

pub assume_specification<T> [<*mut T>::read] (p: *mut T) -> (r: T)
    ensures r == slot_val(p);

pub assume_specification<T, A: std::alloc::Allocator> [std::vec::Vec::<T, A>::set_len] (v: &mut std::vec::Vec<T, A>, n: usize)
    ensures final(v)@.len() == n;

#[verifier::exec_allows_no_decreases_clause]
fn heap_sort_into_vec<Out, Key>(mut vectors: Vec<Vec<(Key, Out)>>, output: &mut Vec<Out>)
where
    Key: Copy + PartialOrd,
{
    let mut queue = BinaryHeap::with_capacity(vectors.len());
    let mut indices = vec![0; vectors.len()];

    for v in 0..vectors.len() { let vec = &vectors[v];
        if let Some(x) = vec.get(indices[v]) {
            queue.push(v, x.0);
        }
    }
    let mut curr_v = queue.pop_node();

    while let Some(v) = curr_v {
        let idx = indices[v];
        indices[v] += 1;

        curr_v = match vectors[v].get(indices[v]) {
            Some(x) => Some(queue.push_then_pop(v, x.0).0),
            None => queue.pop_node(),
        };

        let ptr = vectors[v].as_mut_ptr();
        output.push(unsafe { ptr.add(idx).read().1 });
    }

    for vec in vectors.iter_mut() {
        unsafe { vec.set_len(0) };
    }
}

} // verus!
fn main() {}
