//! Executable forms of the contracts that the Verus units prove for the real bodies of
//! `Runner::{run,run_map,reduce}` (unit core) and `heap_sort_into_{vec,pinned_vec}` (unit merge).
//! Kernels are verified against these contracts, never against the callee bodies (modular step).
use super::model::*;
use crate::core::runner::ParTask;
use crate::{ChunkSize, NumThreads, Params};
use orx_concurrent_iter::ConcurrentIterX;
use orx_fixed_vec::PinnedVec;

/// number of workers of the run (harness-chosen instance of "1 <= |S| <= max_num_threads")
pub static mut NWORKERS: usize = 1;
/// chunk size handed to worker t (harness-chosen instance of "S[t] >= 1, Exact(x) => S[t] == x")
pub static mut CHUNK: [usize; MAXT] = [1; MAXT];
pub static mut RUNNER_CALLS: usize = 0;
pub static mut RUNNER_PARAMS: Option<Params> = None;
pub static mut MERGE_CALLS: usize = 0;

/// spawn_log_ok(params, len0, S) of contracts/runner.vspec, as assumptions on the harness-chosen log
fn assume_spawn_log_ok(params: Params, len0: Option<usize>) {
    unsafe {
        RUNNER_CALLS += 1;
        RUNNER_PARAMS = Some(params);
        let k = NWORKERS;
        kani::assume(1 <= k && k <= MAXT);
        if let NumThreads::Max(n) = params.num_threads {
            kani::assume(k <= n.get());
        }
        if let Some(l) = len0 {
            kani::assume(k <= l || k == 1);
        }
        let mut i = 0;
        while i < k {
            kani::assume(CHUNK[i] >= 1);
            if let ChunkSize::Exact(x) = params.chunk_size {
                kani::assume(CHUNK[i] == x.get());
            }
            i += 1;
        }
    }
}

pub fn stub_run<I, F>(params: Params, _task_type: ParTask, iter: &I, thread_task: &F) -> usize
where
    I: ConcurrentIterX,
    F: Fn(usize) + Sync,
{
    assume_spawn_log_ok(params, iter.try_get_len());
    let k = unsafe { NWORKERS };
    let mut t = 0;
    while t < k {
        unsafe { CUR = t };
        thread_task(unsafe { CHUNK[t] });
        t += 1;
    }
    unsafe { CUR = 0 };
    k
}

pub fn stub_run_map<I, F, Out>(params: Params, _task_type: ParTask, iter: &I, thread_task: &F) -> Vec<Out>
where
    I: ConcurrentIterX,
    F: Fn(usize) -> Out + Sync,
    Out: Send + Sync,
{
    assume_spawn_log_ok(params, iter.try_get_len());
    let k = unsafe { NWORKERS };
    let mut out = Vec::with_capacity(MAXT);
    let mut t = 0;
    while t < k {
        unsafe { CUR = t };
        out.push(thread_task(unsafe { CHUNK[t] }));
        t += 1;
    }
    unsafe { CUR = 0 };
    out
}

pub fn stub_reduce<I, F, T, R>(params: Params, _task_type: ParTask, iter: &I, thread_task: &F, reduce: R) -> (usize, Option<T>)
where
    I: ConcurrentIterX,
    F: Fn(usize) -> T + Sync,
    T: Send,
    R: Fn(T, T) -> T,
{
    assume_spawn_log_ok(params, iter.try_get_len());
    let k = unsafe { NWORKERS };
    let mut acc: Option<T> = None;
    let mut t = 0;
    while t < k {
        unsafe { CUR = t };
        let v = thread_task(unsafe { CHUNK[t] });
        acc = match acc {
            None => Some(v),
            Some(a) => Some(reduce(a, v)),
        };
        t += 1;
    }
    unsafe { CUR = 0 };
    (k, acc)
}

/// Runner must be unreachable (sequential dispatch): any call is a failed obligation
pub fn forbid_run<I, F>(_params: Params, _task_type: ParTask, _iter: &I, _thread_task: &F) -> usize
where
    I: ConcurrentIterX,
    F: Fn(usize) + Sync,
{
    assert!(false, "Runner::run reached although num_threads == Max(1)");
    0
}

pub fn forbid_run_map<I, F, Out>(_params: Params, _task_type: ParTask, _iter: &I, _thread_task: &F) -> Vec<Out>
where
    I: ConcurrentIterX,
    F: Fn(usize) -> Out + Sync,
    Out: Send + Sync,
{
    assert!(false, "Runner::run_map reached although num_threads == Max(1)");
    Vec::new()
}

pub fn forbid_reduce<I, F, T, R>(_params: Params, _task_type: ParTask, _iter: &I, _thread_task: &F, _reduce: R) -> (usize, Option<T>)
where
    I: ConcurrentIterX,
    F: Fn(usize) -> T + Sync,
    T: Send,
    R: Fn(T, T) -> T,
{
    assert!(false, "Runner::reduce reached although num_threads == Max(1)");
    (0, None)
}

/// precondition of the merge (contracts/merge.vspec): every vector strictly increasing in key,
/// keys pairwise distinct across vectors. Checked here on what the real `task` functions produced.
fn assert_merge_pre<Out, Key: Copy + PartialOrd>(vectors: &Vec<Vec<(Key, Out)>>) {
    let n = vectors.len();
    let mut v = 0;
    while v < n {
        let mut i = 1;
        while i < vectors[v].len() {
            assert!(vectors[v][i - 1].0 < vectors[v][i].0, "merge precondition: keys strictly increasing per worker");
            i += 1;
        }
        let mut w = v + 1;
        while w < n {
            let mut a = 0;
            while a < vectors[v].len() {
                let mut b = 0;
                while b < vectors[w].len() {
                    assert!(vectors[v][a].0 != vectors[w][b].0, "merge precondition: keys distinct across workers");
                    b += 1;
                }
                a += 1;
            }
            w += 1;
        }
        v += 1;
    }
}

/// postcondition of the merge: values appended after the untouched prefix in increasing key order,
/// every slot moved out exactly once, vectors emptied without dropping
fn merge_into<Out, Key: Copy + PartialOrd>(mut vectors: Vec<Vec<(Key, Out)>>, mut push: impl FnMut(Out)) {
    unsafe { MERGE_CALLS += 1 };
    assert_merge_pre(&vectors);
    let n = vectors.len();
    let mut cur = [0usize; MAXT];
    loop {
        let mut best: Option<usize> = None;
        let mut i = 0;
        while i < n {
            if cur[i] < vectors[i].len() {
                match best {
                    None => best = Some(i),
                    Some(b) => {
                        if vectors[i][cur[i]].0 < vectors[b][cur[b]].0 {
                            best = Some(i);
                        }
                    }
                }
            }
            i += 1;
        }
        match best {
            None => break,
            Some(b) => {
                let p = vectors[b].as_mut_ptr();
                push(unsafe { p.add(cur[b]).read().1 });
                cur[b] += 1;
            }
        }
    }
    for v in vectors.iter_mut() {
        unsafe { v.set_len(0) };
    }
}

pub fn stub_heap_sort_into_vec<Out, Key>(vectors: Vec<Vec<(Key, Out)>>, output: &mut Vec<Out>)
where
    Key: Copy + PartialOrd,
{
    merge_into(vectors, |x| output.push(x));
}

pub fn stub_heap_sort_into_pinned_vec<Out, Key, P>(vectors: Vec<Vec<(Key, Out)>>, output: &mut P)
where
    Key: PartialOrd + Copy,
    P: PinnedVec<Out>,
{
    merge_into(vectors, |x| output.push(x));
}
