//! Executable forms of the contracts that the Verus units prove for the real bodies of
//! `Runner::{run,run_map,reduce}` (unit core) and `heap_sort_into_{vec,pinned_vec}` (unit merge).
//! Kernels are verified against these contracts, never against the callee bodies (modular step).
use super::model::*;
use crate::core::runner::ParTask;
use crate::{ChunkSize, NumThreads, Params};
use orx_concurrent_iter::ConcurrentIterX;
use orx_fixed_vec::PinnedVec;

// NOTE on `static mut` under Kani 0.68: a mutable static whose initial bytes equal those of some
// constant allocation of the program (e.g. `static mut N: usize = 1` and the `1` inside
// `NumThreads::SEQUENTIAL`) is ALIASED with that constant -- writing the static changed the constant.
// Every static here therefore starts from a unique bit pattern and is set by the harness before use.

/// number of workers of the run (harness-chosen instance of "1 <= |S| <= max_num_threads")
pub static mut NWORKERS: usize = 0xA5A5_0001;
/// chunk size handed to worker t (harness-chosen instance of "S[t] >= 1, Exact(x) => S[t] == x")
pub static mut CHUNK0: usize = 0xA5A5_0002;
pub static mut CHUNK1: usize = 0xA5A5_0003;
pub static mut CHUNK2: usize = 0xA5A5_0004;
pub static mut RUNNER_CALLS: usize = 0xA5A5_0005;
pub static mut MERGE_CALLS: usize = 0xA5A5_0006;
/// parameters the kernel handed to the Runner, encoded: 0 = Auto, n = Max(n)
pub static mut RUNNER_NT: usize = 0xA5A5_0007;
/// 0 = Auto, 1 = Min, 2 = Exact
pub static mut RUNNER_CS_KIND: usize = 0xA5A5_0008;
pub static mut RUNNER_CS_VAL: usize = 0xA5A5_0009;
/// harness switch: the model source reports an unknown length (unique bit patterns, see the note above)
pub static mut UNKNOWN_LEN: usize = 0xA5A5_000A;
pub const UNKNOWN_YES: usize = 0xA5A5_00AA;
pub const UNKNOWN_NO: usize = 0xA5A5_00AB;

pub fn chunk_of(t: usize) -> usize {
    unsafe {
        match t {
            0 => CHUNK0,
            1 => CHUNK1,
            _ => CHUNK2,
        }
    }
}

pub fn set_run(workers: usize, c0: usize, c1: usize, c2: usize) {
    unsafe {
        NWORKERS = workers;
        CHUNK0 = c0;
        CHUNK1 = c1;
        CHUNK2 = c2;
        RUNNER_CALLS = 0;
        MERGE_CALLS = 0;
        RUNNER_NT = 0xA5A5_0017;
        RUNNER_CS_KIND = 0xA5A5_0018;
        RUNNER_CS_VAL = 0xA5A5_0019;
    }
}

fn record_params(params: Params) {
    unsafe {
        RUNNER_NT = match params.num_threads {
            NumThreads::Auto => 0,
            NumThreads::Max(n) => n.get(),
        };
        match params.chunk_size {
            ChunkSize::Auto => {
                RUNNER_CS_KIND = 0;
                RUNNER_CS_VAL = 0;
            }
            ChunkSize::Min(x) => {
                RUNNER_CS_KIND = 1;
                RUNNER_CS_VAL = x.get();
            }
            ChunkSize::Exact(x) => {
                RUNNER_CS_KIND = 2;
                RUNNER_CS_VAL = x.get();
            }
        }
    }
}

pub fn runner_got(params: Params) -> bool {
    unsafe {
        let nt = match params.num_threads {
            NumThreads::Auto => 0,
            NumThreads::Max(n) => n.get(),
        };
        let (k, v) = match params.chunk_size {
            ChunkSize::Auto => (0, 0),
            ChunkSize::Min(x) => (1, x.get()),
            ChunkSize::Exact(x) => (2, x.get()),
        };
        RUNNER_NT == nt && RUNNER_CS_KIND == k && RUNNER_CS_VAL == v
    }
}

/// spawn_log_ok(params, len0, S) of contracts/runner.vspec, as assumptions on the harness-chosen log
fn assume_spawn_log_ok(params: Params, len0: Option<usize>) {
    unsafe {
        RUNNER_CALLS += 1;
        record_params(params);
        let k = NWORKERS;
        kani::assume(1 <= k && k <= MAXT);
        if let NumThreads::Max(n) = params.num_threads {
            kani::assume(k <= n.get());
        }
        if let Some(l) = len0 {
            kani::assume(k <= l || k == 1);
        }
        let mut i = 0;
        while i < k {
            kani::assume(chunk_of(i) >= 1);
            if let ChunkSize::Exact(x) = params.chunk_size {
                kani::assume(chunk_of(i) == x.get());
            }
            i += 1;
        }
    }
}

pub fn stub_run<I, F>(params: Params, _task_type: ParTask, iter: &I, thread_task: &F) -> usize
where
    I: ConcurrentIterX,
    F: Fn(usize) + Sync,
{
    assume_spawn_log_ok(params, iter.try_get_len());
    let k = unsafe { NWORKERS };
    let mut t = 0;
    while t < k {
        unsafe { CUR = t };
        thread_task(chunk_of(t));
        t += 1;
    }
    unsafe { CUR = 0 };
    k
}

pub fn stub_run_map<I, F, Out>(params: Params, _task_type: ParTask, iter: &I, thread_task: &F) -> Vec<Out>
where
    I: ConcurrentIterX,
    F: Fn(usize) -> Out + Sync,
    Out: Send + Sync,
{
    assume_spawn_log_ok(params, iter.try_get_len());
    let k = unsafe { NWORKERS };
    let mut out = Vec::with_capacity(MAXT);
    let mut t = 0;
    while t < k {
        unsafe { CUR = t };
        out.push(thread_task(chunk_of(t)));
        t += 1;
    }
    unsafe { CUR = 0 };
    out
}

pub fn stub_reduce<I, F, T, R>(params: Params, _task_type: ParTask, iter: &I, thread_task: &F, reduce: R) -> (usize, Option<T>)
where
    I: ConcurrentIterX,
    F: Fn(usize) -> T + Sync,
    T: Send,
    R: Fn(T, T) -> T,
{
    assume_spawn_log_ok(params, iter.try_get_len());
    let k = unsafe { NWORKERS };
    let mut acc: Option<T> = None;
    let mut t = 0;
    while t < k {
        unsafe { CUR = t };
        let v = thread_task(chunk_of(t));
        acc = match acc {
            None => Some(v),
            Some(a) => Some(reduce(a, v)),
        };
        t += 1;
    }
    unsafe { CUR = 0 };
    (k, acc)
}

/// Runner must be unreachable (sequential dispatch): any call is a failed obligation
pub fn forbid_run<I, F>(_params: Params, _task_type: ParTask, _iter: &I, _thread_task: &F) -> usize
where
    I: ConcurrentIterX,
    F: Fn(usize) + Sync,
{
    assert!(false, "Runner::run reached although num_threads == Max(1)");
    0
}

pub fn forbid_run_map<I, F, Out>(_params: Params, _task_type: ParTask, _iter: &I, _thread_task: &F) -> Vec<Out>
where
    I: ConcurrentIterX,
    F: Fn(usize) -> Out + Sync,
    Out: Send + Sync,
{
    assert!(false, "Runner::run_map reached although num_threads == Max(1)");
    Vec::new()
}

pub fn forbid_reduce<I, F, T, R>(_params: Params, _task_type: ParTask, _iter: &I, _thread_task: &F, _reduce: R) -> (usize, Option<T>)
where
    I: ConcurrentIterX,
    F: Fn(usize) -> T + Sync,
    T: Send,
    R: Fn(T, T) -> T,
{
    assert!(false, "Runner::reduce reached although num_threads == Max(1)");
    (0, None)
}

/// precondition of the merge (contracts/merge.vspec): every vector strictly increasing in key,
/// keys pairwise distinct across vectors. Checked here on what the real `task` functions produced.
fn assert_increasing<Out, Key: Copy + PartialOrd>(v: &Vec<(Key, Out)>) {
    let mut i = 1;
    while i < v.len() {
        assert!(v[i - 1].0 < v[i].0, "C01: merge precondition violated: keys of one worker are not strictly increasing");
        i += 1;
    }
}

fn assert_disjoint<Out, Key: Copy + PartialOrd>(x: &Vec<(Key, Out)>, y: &Vec<(Key, Out)>) {
    let mut a = 0;
    while a < x.len() {
        let mut b = 0;
        while b < y.len() {
            assert!(x[a].0 != y[b].0, "C01: merge precondition violated: two workers produced the same key");
            b += 1;
        }
        a += 1;
    }
}

fn assert_merge_pre<Out, Key: Copy + PartialOrd>(vectors: &Vec<Vec<(Key, Out)>>) {
    // written out for at most MAXT == 3 vectors (nested generic loops multiply the unwinding cost)
    let n = vectors.len();
    assert!(n <= MAXT);
    if n >= 1 {
        assert_increasing(&vectors[0]);
    }
    if n >= 2 {
        assert_increasing(&vectors[1]);
        assert_disjoint(&vectors[0], &vectors[1]);
    }
    if n >= 3 {
        assert_increasing(&vectors[2]);
        assert_disjoint(&vectors[0], &vectors[2]);
        assert_disjoint(&vectors[1], &vectors[2]);
    }
}

/// postcondition of the merge: values appended after the untouched prefix in increasing key order,
/// every slot moved out exactly once, vectors emptied without dropping
fn merge_into<Out, Key: Copy + PartialOrd>(mut vectors: Vec<Vec<(Key, Out)>>, mut push: impl FnMut(Out)) {
    unsafe { MERGE_CALLS += 1 };
    assert_merge_pre(&vectors);
    let n = vectors.len();
    let mut cur = [0usize; MAXT];
    loop {
        let mut best: Option<usize> = None;
        let mut i = 0;
        while i < n {
            if cur[i] < vectors[i].len() {
                match best {
                    None => best = Some(i),
                    Some(b) => {
                        if vectors[i][cur[i]].0 < vectors[b][cur[b]].0 {
                            best = Some(i);
                        }
                    }
                }
            }
            i += 1;
        }
        match best {
            None => break,
            Some(b) => {
                let p = vectors[b].as_mut_ptr();
                push(unsafe { p.add(cur[b]).read().1 });
                cur[b] += 1;
            }
        }
    }
    for v in vectors.iter_mut() {
        unsafe { v.set_len(0) };
    }
}

pub fn stub_heap_sort_into_vec<Out, Key>(vectors: Vec<Vec<(Key, Out)>>, output: &mut Vec<Out>)
where
    Key: Copy + PartialOrd,
{
    merge_into(vectors, |x| output.push(x));
}

pub fn stub_heap_sort_into_pinned_vec<Out, Key, P>(vectors: Vec<Vec<(Key, Out)>>, output: &mut P)
where
    Key: PartialOrd + Copy,
    P: PinnedVec<Out>,
{
    merge_into(vectors, |x| output.push(x));
}

// ---- ordered computations (collect_vec / collect / collect_into, and the eager materialisation inside a
// transformation) must never go through the unordered collect_x kernels
use crate::Fallible;
use orx_split_vec::{Recursive, SplitVec};

pub fn forbid_map_col_x<I, Out, Map, Fil>(_params: Params, _iter: I, _map: Map, _filter: Fil, _output: &mut SplitVec<Out, Recursive>)
where
    I: ConcurrentIterX,
    Out: Send + Sync,
    Map: Fn(I::Item) -> Out + Send + Sync,
    Fil: Fn(&Out) -> bool + Send + Sync,
{
    assert!(false, "C01,C02: an ordered computation went through the unordered collect_x kernel (map)");
}

pub fn forbid_filtermap_col_x<I, FO, Out, FilterMap, Fil>(_params: Params, _iter: I, _filter_map: FilterMap, _filter: Fil, _output: &mut SplitVec<Out, Recursive>)
where
    I: ConcurrentIterX,
    FO: Fallible<Out> + Send + Sync,
    Out: Send + Sync,
    FilterMap: Fn(I::Item) -> FO + Send + Sync,
    Fil: Fn(&Out) -> bool + Send + Sync,
{
    assert!(false, "C01,C02: an ordered computation went through the unordered collect_x kernel (filter_map)");
}

pub fn forbid_flatmap_col_x<I, OutIter, Out, FlatMap, Fil>(_params: Params, _iter: I, _flat_map: FlatMap, _filter: Fil, _output: &mut SplitVec<Out, Recursive>)
where
    I: ConcurrentIterX,
    OutIter: IntoIterator<Item = Out>,
    Out: Send + Sync,
    FlatMap: Fn(I::Item) -> OutIter + Send + Sync,
    Fil: Fn(&Out) -> bool + Send + Sync,
{
    assert!(false, "C01,C02: an ordered computation went through the unordered collect_x kernel (flat_map)");
}
