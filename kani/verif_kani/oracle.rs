//! Symbolic user closures (uninterpreted via lookup tables) and the sequential oracle.
//! "forall closures" holds over the 4-value table domain; every closure logs its calls by the source
//! position of the element it is applied to (model::log_call), so exactly-once and order properties
//! can be stated.
use super::model::*;

pub const ST_MAP: usize = 0; // first stage closure (map / filter_map / flat_map)
pub const ST_FIL: usize = 1; // filter
pub const ST_P: usize = 2; // terminal predicate / reduce operator / for_each body
pub const ST_X: usize = 3; // extra stage of a longer chain

#[derive(Clone, Copy, PartialEq, Eq)]
pub enum Kind {
    /// map then filter
    MF,
    /// filter_map then filter
    FMF,
    /// flat_map then filter
    FLF,
}

#[derive(Clone, Copy)]
pub struct Cl<'a> {
    pub log: &'a Log,
    pub mt: [u8; 4],
    pub ft: [bool; 4],
    pub ot: [bool; 4],
    pub lt: [u8; 4],
    pub pt: [bool; 4],
}

/// the iterator produced by the symbolic flat_map closure: n <= 2 elements base, base+1
#[derive(Clone, Copy)]
pub struct FlatIt {
    pub p: u8,
    pub base: u8,
    pub i: u8,
    pub n: u8,
}

impl Iterator for FlatIt {
    type Item = E;
    fn next(&mut self) -> Option<E> {
        if self.i < self.n {
            let e = E { p: self.p, v: self.base.wrapping_add(self.i) };
            self.i += 1;
            Some(e)
        } else {
            None
        }
    }
}

impl<'a> Cl<'a> {
    pub fn any(log: &'a Log) -> Cl<'a> {
        // element-wise: `kani::any::<[T; 4]>()` contains a 4-iteration loop that would dictate the unwind bound
        let c = Cl {
            log,
            mt: [kani::any(), kani::any(), kani::any(), kani::any()],
            ft: [kani::any(), kani::any(), kani::any(), kani::any()],
            ot: [kani::any(), kani::any(), kani::any(), kani::any()],
            lt: [kani::any(), kani::any(), kani::any(), kani::any()],
            pt: [kani::any(), kani::any(), kani::any(), kani::any()],
        };
        kani::assume(c.lt[0] <= 2 && c.lt[1] <= 2 && c.lt[2] <= 2 && c.lt[3] <= 2);
        c
    }

    // ---- pure table functions (no logging): used by the oracle
    pub fn o_map(&self, v: u8) -> u8 {
        self.mt[(v % 4) as usize]
    }
    pub fn o_fil(&self, y: u8) -> bool {
        self.ft[(y % 4) as usize]
    }
    pub fn o_opt(&self, v: u8) -> bool {
        self.ot[(v % 4) as usize]
    }
    pub fn o_len(&self, v: u8) -> u8 {
        self.lt[(v % 4) as usize]
    }
    pub fn o_pred(&self, y: u8) -> bool {
        self.pt[(y % 4) as usize]
    }

    // ---- the logging closures handed to the code under verification
    pub fn map(self) -> impl Fn(E) -> E + Clone + Send + Sync + 'a {
        move |e: E| {
            self.log.call(ST_MAP, e.p);
            E { p: e.p, v: self.o_map(e.v) }
        }
    }
    pub fn fil(self) -> impl Fn(&E) -> bool + Clone + Send + Sync + 'a {
        move |y: &E| {
            self.log.call(ST_FIL, y.p);
            self.o_fil(y.v)
        }
    }
    pub fn fmap(self) -> impl Fn(E) -> Option<E> + Clone + Send + Sync + 'a {
        move |e: E| {
            self.log.call(ST_MAP, e.p);
            if self.o_opt(e.v) {
                Some(E { p: e.p, v: self.o_map(e.v) })
            } else {
                None
            }
        }
    }
    pub fn flat(self) -> impl Fn(E) -> FlatIt + Clone + Send + Sync + 'a {
        move |e: E| {
            self.log.call(ST_MAP, e.p);
            FlatIt { p: e.p, base: self.o_map(e.v), i: 0, n: self.o_len(e.v) }
        }
    }
    pub fn pred(self) -> impl Fn(&E) -> bool + Clone + Send + Sync + 'a {
        move |y: &E| {
            self.log.call(ST_P, y.p);
            self.o_pred(y.v)
        }
    }

    /// sequential semantics of one source element through the two-stage pipeline `kind`:
    /// the outputs (at most 2) in order
    pub fn expand(&self, kind: Kind, p: u8, v: u8) -> ([E; 2], usize) {
        let mut out = [E { p, v: 0 }; 2];
        let mut n = 0;
        match kind {
            Kind::MF => {
                let y = self.o_map(v);
                if self.o_fil(y) {
                    out[0] = E { p, v: y };
                    n = 1;
                }
            }
            Kind::FMF => {
                if self.o_opt(v) {
                    let y = self.o_map(v);
                    if self.o_fil(y) {
                        out[0] = E { p, v: y };
                        n = 1;
                    }
                }
            }
            Kind::FLF => {
                let k = self.o_len(v);
                let base = self.o_map(v);
                let mut j = 0u8;
                while j < k {
                    let y = base.wrapping_add(j);
                    if self.o_fil(y) {
                        out[n] = E { p, v: y };
                        n += 1;
                    }
                    j += 1;
                }
            }
        }
        (out, n)
    }

    /// number of filter calls the sequential chain makes for one source element
    pub fn fil_calls(&self, kind: Kind, v: u8) -> u8 {
        match kind {
            Kind::MF => 1,
            Kind::FMF => {
                if self.o_opt(v) {
                    1
                } else {
                    0
                }
            }
            Kind::FLF => self.o_len(v),
        }
    }
}

/// associative + commutative operators on payloads used for the reduce family
#[derive(Clone, Copy, PartialEq, Eq)]
pub enum Op {
    Add,
    Xor,
    Min,
    Max,
    /// wrapping subtraction: neither associative nor commutative (sequential mode only)
    Sub,
}

pub fn apply(op: Op, a: u8, b: u8) -> u8 {
    match op {
        Op::Add => a.wrapping_add(b),
        Op::Xor => a ^ b,
        Op::Sub => a.wrapping_sub(b),
        Op::Min => {
            if b < a {
                b
            } else {
                a
            }
        }
        Op::Max => {
            if b > a {
                b
            } else {
                a
            }
        }
    }
}

/// reduce closure on E: combines payloads with `op`, logs the call, keeps the left position
pub fn red<'a>(log: &'a Log, op: Op) -> impl Fn(E, E) -> E + Clone + Send + Sync + 'a {
    move |a: E, b: E| {
        log.call(ST_P, a.p);
        E { p: a.p, v: apply(op, a.v, b.v) }
    }
}

// ------------------------------------------------------------------------------------------
// second-stage closures for longer chains and the source as a std iterator

impl<'a> Cl<'a> {
    pub fn with_log<'b>(&self, log: &'b Log) -> Cl<'b> {
        Cl { log, mt: self.mt, ft: self.ft, ot: self.ot, lt: self.lt, pt: self.pt }
    }
    pub fn o_map2(&self, v: u8) -> u8 {
        self.mt[((v >> 2) % 4) as usize]
    }
    pub fn o_fil2(&self, y: u8) -> bool {
        self.pt[((y >> 2) % 4) as usize]
    }
    pub fn map2(self) -> impl Fn(E) -> E + Clone + Send + Sync + 'a {
        move |e: E| {
            self.log.call(ST_X, e.p);
            E { p: e.p, v: self.o_map2(e.v) }
        }
    }
    pub fn fil2(self) -> impl Fn(&E) -> bool + Clone + Send + Sync + 'a {
        move |y: &E| {
            self.log.call(ST_X, y.p);
            self.o_fil2(y.v)
        }
    }
    /// for_each body
    pub fn each(self) -> impl Fn(E) + Clone + Send + Sync + 'a {
        move |e: E| {
            self.log.call(ST_P, e.p);
        }
    }
}

/// the source as a std iterator (the sequential oracle starts from this)
pub fn src_iter(data: [u8; MAXN], n: usize) -> impl Iterator<Item = E> {
    (0..n).map(move |i| E { p: i as u8, v: data[i] })
}

/// full sequential output of the two-stage pipeline `kind` over the first n elements
pub fn seq_outputs(cl: &Cl, kind: Kind, data: [u8; MAXN], n: usize) -> ([E; 8], usize) {
    let mut out = [E { p: 0, v: 0 }; 8];
    let mut m = 0;
    let mut i = 0;
    while i < n {
        let (o, cnt) = cl.expand(kind, i as u8, data[i]);
        let mut q = 0;
        while q < cnt {
            out[m] = o[q];
            m += 1;
            q += 1;
        }
        i += 1;
    }
    (out, m)
}

pub fn same_stage(a: &Log, b: &Log, s: usize) -> bool {
    a.calls(s, 0) == b.calls(s, 0) && a.calls(s, 1) == b.calls(s, 1) && a.calls(s, 2) == b.calls(s, 2) && a.calls(s, 3) == b.calls(s, 3)
}

/// sequential outputs of the blocks delivered to one worker (mine[k] per block of size c), with their
/// keys (source position, position inside the element's outputs), in source order
pub fn worker_outputs(cl: &Cl, kind: Kind, data: [u8; MAXN], n: usize, c: usize, mine: [bool; MAXN]) -> ([E; 8], [(usize, usize); 8], usize) {
    let mut out = [E { p: 0, v: 0 }; 8];
    let mut keys = [(0usize, 0usize); 8];
    let mut m = 0;
    let mut i = 0;
    while i < n {
        if mine[i / c] {
            let (o, cnt) = cl.expand(kind, i as u8, data[i]);
            let mut q = 0;
            while q < cnt {
                out[m] = o[q];
                keys[m] = (i, q);
                m += 1;
                q += 1;
            }
        }
        i += 1;
    }
    (out, keys, m)
}

/// same call counts for every (stage, position)
pub fn same_call_multiset(a: &Log, b: &Log) -> bool {
    same_stage(a, b, 0) && same_stage(a, b, 1) && same_stage(a, b, 2) && same_stage(a, b, 3)
}

fn le_stage(a: &Log, b: &Log, s: usize) -> bool {
    a.calls(s, 0) <= b.calls(s, 0) && a.calls(s, 1) <= b.calls(s, 1) && a.calls(s, 2) <= b.calls(s, 2) && a.calls(s, 3) <= b.calls(s, 3)
}

/// no closure called more often than in the complete sequential evaluation `full`
pub fn calls_at_most(a: &Log, full: &Log) -> bool {
    le_stage(a, full, 0) && le_stage(a, full, 1) && le_stage(a, full, 2) && le_stage(a, full, 3)
}

/// identical call sequences (sequential mode); written without a loop. The log keeps the first MAXSEQ (24) calls:
/// the lengths must agree and the logged prefixes must be identical.
pub fn same_call_sequence(a: &Log, b: &Log) -> bool {
    let n = a.seq_len();
    if n != b.seq_len() {
        return false;
    }
    macro_rules! at {
        ($i:expr) => {
            ($i >= n || a.seq_at($i) == b.seq_at($i))
        };
    }
    at!(0) && at!(1) && at!(2) && at!(3) && at!(4) && at!(5) && at!(6) && at!(7) && at!(8) && at!(9) && at!(10) && at!(11)
        && at!(12) && at!(13) && at!(14) && at!(15) && at!(16) && at!(17) && at!(18) && at!(19) && at!(20) && at!(21) && at!(22) && at!(23)
}

pub fn any_params() -> crate::Params {
    use crate::{ChunkSize, NumThreads, Params};
    use std::num::NonZeroUsize;
    let a: usize = kani::any();
    let b: usize = kani::any();
    let num_threads = if a == 0 { NumThreads::Auto } else { NumThreads::Max(NonZeroUsize::new(a).unwrap()) };
    let chunk_size = if b == 0 {
        ChunkSize::Auto
    } else if kani::any() {
        ChunkSize::Exact(NonZeroUsize::new(b).unwrap())
    } else {
        ChunkSize::Min(NonZeroUsize::new(b).unwrap())
    };
    Params { num_threads, chunk_size }
}
