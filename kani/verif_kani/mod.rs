//! Kani harness toolkit injected (scratch copy only) as `crate::core::verif_kani` under cfg(kani).
#![allow(dead_code, unused_imports, unused_variables, static_mut_refs, unused_mut)]
use orx_concurrent_iter::ConcurrentIterX;
pub mod model;
pub mod oracle;
pub mod stubs;

pub use model::*;
pub use oracle::*;
pub use stubs::*;

/// iterator as seen by ONE worker (worker 0): it receives exactly the blocks k with mine[k];
/// all other blocks go to somebody else (worker 1). `mine` is concrete per harness (symbolic block
/// masks exhaust CBMC's memory); the generator enumerates the masks.
pub fn single_worker_iter(n: usize, c: usize, mine: [bool; MAXN]) -> (ModelIter, [u8; MAXN], [bool; MAXN]) {
    let data: [u8; MAXN] = kani::any();
    let mut owner = [1u8; MAXN];
    let mut k = 0;
    while k < MAXN {
        if mine[k] {
            owner[k] = 0;
        }
        k += 1;
    }
    (ModelIter::new(data, n, c, owner), data, mine)
}

pub fn block_of(i: usize, c: usize) -> usize {
    i / c
}
