//! Kani harness toolkit injected (scratch copy only) as `crate::core::verif_kani` under cfg(kani).
#![allow(dead_code, unused_imports, unused_variables, static_mut_refs, unused_mut)]
use orx_concurrent_iter::ConcurrentIterX;
pub mod model;
pub mod oracle;
pub mod stubs;

pub use model::*;
pub use oracle::*;
pub use stubs::*;

use crate::{ChunkSize, NumThreads, Params};
use std::num::NonZeroUsize;

pub fn any_data() -> [u8; MAXN] {
    // element-wise: `kani::any::<[T; 4]>()` contains a 4-iteration loop that would dictate the unwind bound
    [kani::any(), kani::any(), kani::any(), kani::any()]
}

/// iterator as seen by ONE worker (worker 0): it receives exactly the blocks k with mine[k];
/// all other blocks go to somebody else (worker 1). `mine` is concrete per harness (symbolic block
/// masks exhaust CBMC's memory); the generator enumerates the masks.
pub fn single_worker_iter<'a>(log: &'a Log, n: usize, c: usize, mine: [bool; MAXN]) -> (ModelIter<'a>, [u8; MAXN]) {
    let data = any_data();
    let owner = [
        if mine[0] { 0u8 } else { 1u8 },
        if mine[1] { 0u8 } else { 1u8 },
        if mine[2] { 0u8 } else { 1u8 },
        if mine[3] { 0u8 } else { 1u8 },
    ];
    (ModelIter::new(log, data, n, c, owner), data)
}

/// a run with `workers` workers, all started with chunk size c (harness-chosen instance of the
/// Runner contract), over a source of n symbolic elements split into blocks of c owned per `owner`
pub fn multi_worker_iter<'a>(log: &'a Log, n: usize, c: usize, owner: [u8; MAXN], workers: usize) -> (ModelIter<'a>, [u8; MAXN]) {
    let data = any_data();
    set_run(workers, c, c, c);
    (ModelIter::new(log, data, n, c, owner), data)
}

pub fn nz(x: usize) -> NonZeroUsize {
    NonZeroUsize::new(x).unwrap()
}

/// parallel parameters consistent with the harness-chosen run (k workers, chunk c)
pub fn par_params(workers: usize, c: usize) -> Params {
    Params { num_threads: NumThreads::Max(nz(if workers < 2 { 2 } else { workers })), chunk_size: ChunkSize::Exact(nz(c)) }
}

pub fn seq_params() -> Params {
    let cs: usize = kani::any();
    let chunk_size = if cs == 0 {
        ChunkSize::Auto
    } else if kani::any() {
        ChunkSize::Exact(nz(cs))
    } else {
        ChunkSize::Min(nz(cs))
    };
    Params { num_threads: NumThreads::Max(nz(1)), chunk_size }
}

pub fn runner_called_once_with(params: Params) -> bool {
    let calls = unsafe { RUNNER_CALLS };
    calls == 1 && runner_got(params)
}

pub fn vec_with(pre: E) -> Vec<E> {
    let mut v = Vec::with_capacity(2);
    v.push(pre);
    v
}

pub fn split_with(pre: E) -> orx_split_vec::SplitVec<E> {
    use orx_pinned_vec::PinnedVec;
    let mut v = orx_split_vec::SplitVec::new();
    v.push(pre);
    v
}

pub fn fixed_with(pre: E) -> orx_fixed_vec::FixedVec<E> {
    use orx_pinned_vec::PinnedVec;
    let mut v = orx_fixed_vec::FixedVec::new(8);
    v.push(pre);
    v
}

/// a SplitVec (linear growth, fragments of 2) that holds two elements and has no spare concurrent capacity
pub fn split_full(pre: E) -> orx_split_vec::SplitVec<E, orx_split_vec::Linear> {
    use orx_pinned_vec::PinnedVec;
    let mut v = orx_split_vec::SplitVec::with_linear_growth_and_fragments_capacity(1, 1);
    v.push(pre);
    v.push(pre);
    v
}
