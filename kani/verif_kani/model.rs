//! Executable form of the assumed dependency contract T1 (orx-concurrent-iter protocol) with an
//! explicit chunk -> worker assignment, plus the call and pull logs used by the harnesses.
//! Single-threaded (Kani has no threads): "workers" are run one after another by the Runner
//! contract stubs (stubs.rs), which set `CUR` before each worker. See DESIGN.md 1 (R-sched).
use orx_concurrent_iter::iter::buffered::buffered_chunk::{BufferedChunk, BufferedChunkX};
use orx_concurrent_iter::{ConcurrentIter, ConcurrentIterX, Next, NextChunk};
use std::cell::Cell;
use std::marker::PhantomData;

pub const MAXN: usize = 4;
pub const MAXT: usize = 3;

/// source element: position in the source and a symbolic payload
#[derive(Clone, Copy, PartialEq, Eq, Debug)]
pub struct E {
    pub p: u8,
    pub v: u8,
}

/// worker currently being run by a Runner contract stub
// (unique initial bit pattern: see the note on `static mut` in stubs.rs; Log::new() sets it to 0)
pub static mut CUR: usize = 0xA5A5_0000;

// ---- logs. Kept in a struct reached through a shared reference captured by closures and iterator:
// writes to `static mut` arrays from inside closures made CBMC 6.11 report spurious
// __rust_dealloc failures.
pub const NSTAGES: usize = 4;
pub const MAXSEQ: usize = 24;

pub struct Log {
    // call log: how often closure `stage` was called on the element that came from source position p
    calls: [[Cell<u8>; MAXN]; NSTAGES],
    worker: [[Cell<u8>; MAXN]; NSTAGES],
    seq: [Cell<(u8, u8)>; MAXSEQ],
    seq_len: Cell<usize>,
    // pull log of the model iterator
    pub next_block: [Cell<usize>; MAXT],
    pub delivered: Cell<usize>,
    pub pulls: Cell<usize>,
    pub bad_pull_size: Cell<bool>,
    pub got_none: [Cell<bool>; MAXT],
    pub pull_after_none: Cell<bool>,
    pub skipped: Cell<bool>,
    pub skipped_by: [Cell<bool>; MAXT],
    pub pull_after_own_skip: Cell<bool>,
    pub into_seq: Cell<bool>,
    pub seq_next_calls: Cell<usize>,
}

unsafe impl Sync for Log {}
unsafe impl Send for Log {}

impl Log {
    pub fn new() -> Log {
        unsafe { CUR = 0 };
        Log {
            calls: Default::default(),
            worker: Default::default(),
            seq: Default::default(),
            seq_len: Cell::new(0),
            next_block: Default::default(),
            delivered: Cell::new(0),
            pulls: Cell::new(0),
            bad_pull_size: Cell::new(false),
            got_none: Default::default(),
            pull_after_none: Cell::new(false),
            skipped: Cell::new(false),
            skipped_by: Default::default(),
            pull_after_own_skip: Cell::new(false),
            into_seq: Cell::new(false),
            seq_next_calls: Cell::new(0),
        }
    }

    pub fn call(&self, stage: usize, p: u8) {
        if (p as usize) < MAXN && stage < NSTAGES {
            let c = &self.calls[stage][p as usize];
            c.set(c.get().wrapping_add(1));
            self.worker[stage][p as usize].set(unsafe { CUR } as u8);
        }
        let n = self.seq_len.get();
        if n < MAXSEQ {
            self.seq[n].set((stage as u8, p));
            self.seq_len.set(n + 1);
        }
    }

    pub fn calls(&self, stage: usize, p: usize) -> u8 {
        self.calls[stage][p].get()
    }

    pub fn worker_of(&self, stage: usize, p: usize) -> u8 {
        self.worker[stage][p].get()
    }

    pub fn total(&self, stage: usize) -> usize {
        // MAXN == 4, written out so that harness unwind bounds do not depend on MAXN
        self.calls[stage][0].get() as usize
            + self.calls[stage][1].get() as usize
            + self.calls[stage][2].get() as usize
            + self.calls[stage][3].get() as usize
    }

    pub fn max_calls(&self, stage: usize) -> u8 {
        let a = self.calls[stage][0].get();
        let b = self.calls[stage][1].get();
        let c = self.calls[stage][2].get();
        let d = self.calls[stage][3].get();
        let m1 = if a > b { a } else { b };
        let m2 = if c > d { c } else { d };
        if m1 > m2 { m1 } else { m2 }
    }

    pub fn any_call(&self) -> bool {
        self.seq_len.get() > 0
    }

    pub fn seq_len(&self) -> usize {
        self.seq_len.get()
    }

    pub fn seq_at(&self, i: usize) -> (u8, u8) {
        self.seq[i].get()
    }

    /// no pull, no skip, no conversion happened on the source
    pub fn source_untouched(&self) -> bool {
        self.pulls.get() == 0 && !self.skipped.get() && !self.into_seq.get() && self.seq_next_calls.get() == 0
    }
}

pub struct ModelIter<'a> {
    pub log: &'a Log,
    pub data: [u8; MAXN],
    pub len: usize,
    pub known_len: bool,
    /// block size of the run: every pull is expected to request exactly this size
    pub c: usize,
    /// owner[k] = worker that receives block k (block k = positions [k*c, min((k+1)*c, len)))
    pub owner: [u8; MAXN],
    /// early-exit frontier: blocks with index > cut are never delivered
    pub cut: usize,
}

unsafe impl Sync for ModelIter<'_> {}
unsafe impl Send for ModelIter<'_> {}

impl<'a> ModelIter<'a> {
    pub fn new(log: &'a Log, data: [u8; MAXN], len: usize, c: usize, owner: [u8; MAXN]) -> Self {
        ModelIter { log, data, len, known_len: true, c, owner, cut: MAXN }
    }

    pub fn nblocks(&self) -> usize {
        (self.len + self.c - 1) / self.c
    }

    fn take_block(&self, req: usize) -> Option<usize> {
        let t = unsafe { CUR };
        let log = self.log;
        if req != self.c {
            log.bad_pull_size.set(true);
        }
        if log.got_none[t].get() {
            log.pull_after_none.set(true);
        }
        if log.skipped_by[t].get() {
            log.pull_after_own_skip.set(true);
        }
        log.pulls.set(log.pulls.get() + 1);
        let nb = self.nblocks();
        let mut k = log.next_block[t].get();
        while k < nb {
            if k > self.cut {
                break;
            }
            if self.owner[k] as usize == t {
                log.next_block[t].set(k + 1);
                let (b, e) = self.block_range(k);
                log.delivered.set(log.delivered.get() + (e - b));
                return Some(k);
            }
            k += 1;
        }
        log.next_block[t].set(nb);
        log.got_none[t].set(true);
        None
    }

    pub fn block_range(&self, k: usize) -> (usize, usize) {
        let b = k * self.c;
        let e = if b + self.c < self.len { b + self.c } else { self.len };
        (b, e)
    }
}

pub struct ModelBuf<'a> {
    c: usize,
    _p: PhantomData<&'a ()>,
}

impl<'a> BufferedChunkX<E> for ModelBuf<'a> {
    type ConIter = ModelIter<'a>;
    fn new(chunk_size: usize) -> Self {
        Self { c: chunk_size, _p: PhantomData }
    }
    fn chunk_size(&self) -> usize {
        self.c
    }
    fn pull_x(&mut self, iter: &ModelIter<'a>) -> Option<impl ExactSizeIterator<Item = E>> {
        iter.next_chunk_x(self.c)
    }
}

impl<'a> BufferedChunk<E> for ModelBuf<'a> {
    fn pull(&mut self, iter: &ModelIter<'a>) -> Option<NextChunk<E, impl ExactSizeIterator<Item = E>>> {
        iter.next_chunk(self.c)
    }
}

/// a run of consecutive source elements
pub struct Blk<'a> {
    data: [u8; MAXN],
    i: usize,
    e: usize,
    /// set for the sequential iterator: counts next() calls (source consumption in sequential mode)
    log: Option<&'a Log>,
}

impl Iterator for Blk<'_> {
    type Item = E;
    fn next(&mut self) -> Option<E> {
        if let Some(l) = self.log {
            l.seq_next_calls.set(l.seq_next_calls.get() + 1);
        }
        if self.i < self.e {
            let x = E { p: self.i as u8, v: self.data[self.i] };
            self.i += 1;
            Some(x)
        } else {
            None
        }
    }
    fn size_hint(&self) -> (usize, Option<usize>) {
        (self.e - self.i, Some(self.e - self.i))
    }
}

impl ExactSizeIterator for Blk<'_> {
    fn len(&self) -> usize {
        self.e - self.i
    }
}

impl<'a> ConcurrentIterX for ModelIter<'a> {
    type Item = E;
    type SeqIter = Blk<'a>;
    type BufferedIterX = ModelBuf<'a>;

    fn into_seq_iter(self) -> Blk<'a> {
        self.log.into_seq.set(true);
        Blk { data: self.data, i: self.log.delivered.get(), e: self.len, log: Some(self.log) }
    }

    fn next_chunk_x(&self, chunk_size: usize) -> Option<impl ExactSizeIterator<Item = E>> {
        self.take_block(chunk_size).map(|k| {
            let (b, e) = self.block_range(k);
            Blk { data: self.data, i: b, e, log: None }
        })
    }

    fn next(&self) -> Option<E> {
        self.take_block(1).map(|k| E { p: k as u8, v: self.data[k] })
    }

    fn skip_to_end(&self) {
        self.log.skipped.set(true);
        self.log.skipped_by[unsafe { CUR }].set(true);
    }

    fn try_get_len(&self) -> Option<usize> {
        if self.known_len {
            Some(self.len - self.log.delivered.get())
        } else {
            None
        }
    }

    fn try_get_initial_len(&self) -> Option<usize> {
        if self.known_len {
            Some(self.len)
        } else {
            None
        }
    }
}

impl<'a> ConcurrentIter for ModelIter<'a> {
    type BufferedIter = ModelBuf<'a>;

    fn next_id_and_value(&self) -> Option<Next<E>> {
        self.take_block(1).map(|k| Next { idx: k, value: E { p: k as u8, v: self.data[k] } })
    }

    fn next_chunk(&self, chunk_size: usize) -> Option<NextChunk<E, impl ExactSizeIterator<Item = E>>> {
        self.take_block(chunk_size).map(|k| {
            let (b, e) = self.block_range(k);
            NextChunk { begin_idx: b, values: Blk { data: self.data, i: b, e, log: None } }
        })
    }
}
