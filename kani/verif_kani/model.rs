//! Executable form of the assumed dependency contract T1 (orx-concurrent-iter protocol) with an
//! explicit chunk -> worker assignment, plus the call logs used by the harnesses.
//! Single-threaded (Kani has no threads): "workers" are run one after another by the Runner
//! contract stubs (stubs.rs), which set `CUR` before each worker. See DESIGN.md 1 (R-sched).
use orx_concurrent_iter::iter::buffered::buffered_chunk::{BufferedChunk, BufferedChunkX};
use orx_concurrent_iter::{ConcurrentIter, ConcurrentIterX, Next, NextChunk};
use std::cell::Cell;

pub const MAXN: usize = 4;
pub const MAXT: usize = 3;

/// source element: position in the source and a symbolic payload
#[derive(Clone, Copy, PartialEq, Eq, Debug)]
pub struct E {
    pub p: u8,
    pub v: u8,
}

pub static mut CUR: usize = 0;

// ---- call log: how often closure `stage` was called on the element that came from source position p.
// (Kept in a struct reached through a shared reference captured by the closures: writes to
// `static mut` arrays from inside closures made CBMC 6.11 report spurious __rust_dealloc failures.)
pub const NSTAGES: usize = 4;
/// flat sequence of (stage, position) calls, for order-sensitive properties
pub const MAXSEQ: usize = 24;

pub struct Log {
    calls: [[Cell<u8>; MAXN]; NSTAGES],
    worker: [[Cell<u8>; MAXN]; NSTAGES],
    seq: [Cell<(u8, u8)>; MAXSEQ],
    seq_len: Cell<usize>,
}

unsafe impl Sync for Log {}
unsafe impl Send for Log {}

impl Log {
    pub fn new() -> Log {
        unsafe { CUR = 0 };
        Log {
            calls: Default::default(),
            worker: Default::default(),
            seq: Default::default(),
            seq_len: Cell::new(0),
        }
    }

    pub fn call(&self, stage: usize, p: u8) {
        if (p as usize) < MAXN && stage < NSTAGES {
            let c = &self.calls[stage][p as usize];
            c.set(c.get().wrapping_add(1));
            self.worker[stage][p as usize].set(unsafe { CUR } as u8);
        }
        let n = self.seq_len.get();
        if n < MAXSEQ {
            self.seq[n].set((stage as u8, p));
            self.seq_len.set(n + 1);
        }
    }

    pub fn calls(&self, stage: usize, p: usize) -> u8 {
        self.calls[stage][p].get()
    }

    pub fn worker_of(&self, stage: usize, p: usize) -> u8 {
        self.worker[stage][p].get()
    }

    pub fn total(&self, stage: usize) -> usize {
        let mut n = 0;
        let mut p = 0;
        while p < MAXN {
            n += self.calls[stage][p].get() as usize;
            p += 1;
        }
        n
    }

    pub fn seq_len(&self) -> usize {
        self.seq_len.get()
    }

    pub fn seq_at(&self, i: usize) -> (u8, u8) {
        self.seq[i].get()
    }
}

pub struct ModelIter {
    pub data: [u8; MAXN],
    pub len: usize,
    pub known_len: bool,
    /// block size of the run: every pull is expected to request exactly this size
    pub c: usize,
    /// owner[k] = worker that receives block k (block k = positions [k*c, min((k+1)*c, len)))
    pub owner: [u8; MAXN],
    /// early-exit frontier: blocks with index > cut are never delivered
    pub cut: usize,
    pub next_block: [Cell<usize>; MAXT],
    pub delivered: Cell<usize>,
    // ---- pull log
    pub pulls: Cell<usize>,
    pub bad_pull_size: Cell<bool>,
    pub got_none: [Cell<bool>; MAXT],
    pub pull_after_none: Cell<bool>,
    pub skipped: Cell<bool>,
    pub skipped_by: [Cell<bool>; MAXT],
    pub pull_after_own_skip: Cell<bool>,
    pub into_seq: Cell<bool>,
}

unsafe impl Sync for ModelIter {}
unsafe impl Send for ModelIter {}

impl ModelIter {
    pub fn new(data: [u8; MAXN], len: usize, c: usize, owner: [u8; MAXN]) -> Self {
        ModelIter {
            data,
            len,
            known_len: true,
            c,
            owner,
            cut: MAXN,
            next_block: [Cell::new(0), Cell::new(0), Cell::new(0)],
            delivered: Cell::new(0),
            pulls: Cell::new(0),
            bad_pull_size: Cell::new(false),
            got_none: [Cell::new(false), Cell::new(false), Cell::new(false)],
            pull_after_none: Cell::new(false),
            skipped: Cell::new(false),
            skipped_by: [Cell::new(false), Cell::new(false), Cell::new(false)],
            pull_after_own_skip: Cell::new(false),
            into_seq: Cell::new(false),
        }
    }

    pub fn nblocks(&self) -> usize {
        (self.len + self.c - 1) / self.c
    }

    fn take_block(&self, req: usize) -> Option<usize> {
        let t = unsafe { CUR };
        if req != self.c {
            self.bad_pull_size.set(true);
        }
        if self.got_none[t].get() {
            self.pull_after_none.set(true);
        }
        if self.skipped_by[t].get() {
            self.pull_after_own_skip.set(true);
        }
        self.pulls.set(self.pulls.get() + 1);
        let nb = self.nblocks();
        let mut k = self.next_block[t].get();
        while k < nb {
            if k > self.cut {
                break;
            }
            if self.owner[k] as usize == t {
                self.next_block[t].set(k + 1);
                let (b, e) = self.block_range(k);
                self.delivered.set(self.delivered.get() + (e - b));
                return Some(k);
            }
            k += 1;
        }
        self.next_block[t].set(nb);
        self.got_none[t].set(true);
        None
    }

    pub fn block_range(&self, k: usize) -> (usize, usize) {
        let b = k * self.c;
        let e = if b + self.c < self.len { b + self.c } else { self.len };
        (b, e)
    }
}

pub struct ModelBuf {
    c: usize,
}

impl BufferedChunkX<E> for ModelBuf {
    type ConIter = ModelIter;
    fn new(chunk_size: usize) -> Self {
        Self { c: chunk_size }
    }
    fn chunk_size(&self) -> usize {
        self.c
    }
    fn pull_x(&mut self, iter: &ModelIter) -> Option<impl ExactSizeIterator<Item = E>> {
        iter.next_chunk_x(self.c)
    }
}

impl BufferedChunk<E> for ModelBuf {
    fn pull(&mut self, iter: &ModelIter) -> Option<NextChunk<E, impl ExactSizeIterator<Item = E>>> {
        iter.next_chunk(self.c)
    }
}

/// a run of consecutive source elements
pub struct Blk {
    data: [u8; MAXN],
    i: usize,
    e: usize,
}

impl Iterator for Blk {
    type Item = E;
    fn next(&mut self) -> Option<E> {
        if self.i < self.e {
            let x = E { p: self.i as u8, v: self.data[self.i] };
            self.i += 1;
            Some(x)
        } else {
            None
        }
    }
    fn size_hint(&self) -> (usize, Option<usize>) {
        (self.e - self.i, Some(self.e - self.i))
    }
}

impl ExactSizeIterator for Blk {
    fn len(&self) -> usize {
        self.e - self.i
    }
}

impl ConcurrentIterX for ModelIter {
    type Item = E;
    type SeqIter = Blk;
    type BufferedIterX = ModelBuf;

    fn into_seq_iter(self) -> Blk {
        self.into_seq.set(true);
        Blk { data: self.data, i: self.delivered.get(), e: self.len }
    }

    fn next_chunk_x(&self, chunk_size: usize) -> Option<impl ExactSizeIterator<Item = E>> {
        self.take_block(chunk_size).map(|k| {
            let (b, e) = self.block_range(k);
            Blk { data: self.data, i: b, e }
        })
    }

    fn next(&self) -> Option<E> {
        self.take_block(1).map(|k| E { p: k as u8, v: self.data[k] })
    }

    fn skip_to_end(&self) {
        self.skipped.set(true);
        self.skipped_by[unsafe { CUR }].set(true);
    }

    fn try_get_len(&self) -> Option<usize> {
        if self.known_len {
            Some(self.len - self.delivered.get())
        } else {
            None
        }
    }

    fn try_get_initial_len(&self) -> Option<usize> {
        if self.known_len {
            Some(self.len)
        } else {
            None
        }
    }
}

impl ConcurrentIter for ModelIter {
    type BufferedIter = ModelBuf;

    fn next_id_and_value(&self) -> Option<Next<E>> {
        self.take_block(1).map(|k| Next { idx: k, value: E { p: k as u8, v: self.data[k] } })
    }

    fn next_chunk(&self, chunk_size: usize) -> Option<NextChunk<E, impl ExactSizeIterator<Item = E>>> {
        self.take_block(chunk_size).map(|k| {
            let (b, e) = self.block_range(k);
            NextChunk { begin_idx: b, values: Blk { data: self.data, i: b, e } }
        })
    }
}
