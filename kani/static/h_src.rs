//! Source kinds (src/into/*.rs, src/par/cloned_copied.rs): every way of building a computation hands the right
//! elements, in source order, to the pipeline. REAL dependency iterators (ConIterOfVec / ConIterOfSlice /
//! ConIterOfRange / ConIterOfIter), one worker through the Runner contract, cheap terminals (count, first,
//! xor-reduce) so that the harnesses stay small.
use super::*;
use crate::{AsPar, IntoPar, IterIntoPar, Par, ParIntoCloned, ParIntoCopied};

fn any3() -> [u8; 3] {
    [kani::any(), kani::any(), kani::any()]
}

fn xor3(d: [u8; 3]) -> u8 {
    d[0] ^ d[1] ^ d[2]
}

fn vec3(d: [u8; 3]) -> Vec<u8> {
    let mut v = Vec::with_capacity(3);
    v.push(d[0]);
    v.push(d[1]);
    v.push(d[2]);
    v
}

macro_rules! src_harness {
    ($name:ident, $d:ident, $build:expr, $reduce:expr, $first:expr) => {
        #[kani::proof]
        #[kani::unwind(6)]
        #[kani::stub(crate::core::runner::Runner::run, crate::core::verif_kani::stub_run)]
        #[kani::stub(crate::core::runner::Runner::run_map, crate::core::verif_kani::stub_run_map)]
        #[kani::stub(crate::core::runner::Runner::reduce, crate::core::verif_kani::stub_reduce)]
        fn $name() {
            let _l = Log::new();
            set_run(1, 1, 1, 1);
            let $d = any3();
            let n = { $build }.num_threads(2).chunk_size(1).count();
            assert!(n == 3, "C01,C04: the source kind does not deliver every element exactly once");
            set_run(1, 1, 1, 1);
            let x = $reduce;
            assert!(x == Some(xor3($d)), "C01,C03: the source kind delivers wrong elements");
            set_run(1, 1, 1, 1);
            let f = $first;
            assert!(f == Some($d[0]), "C01,C02: the first element of the computation is not the first element of the source");
        }
    };
}

src_harness!(k_src_vec_into_par, d, vec3(d).into_par(),
    vec3(d).into_par().num_threads(2).chunk_size(1).reduce(|a, b| a ^ b),
    vec3(d).into_par().num_threads(2).chunk_size(1).first());

src_harness!(k_src_vec_par_copied, d, vec3(d).par(),
    { let v = vec3(d); let r = v.par().num_threads(2).chunk_size(1).copied().reduce(|a, b| a ^ b); r },
    { let v = vec3(d); let r = v.par().num_threads(2).chunk_size(1).copied().first(); r });

src_harness!(k_src_slice_par_cloned, d, { let v = vec3(d); let s: &[u8] = &v; let _ = s; vec3(d).into_par() },
    { let v = vec3(d); let s: &[u8] = &v; let r = s.par().num_threads(2).chunk_size(1).cloned().reduce(|a, b| a ^ b); r },
    { let v = vec3(d); let s: &[u8] = &v; let r = s.par().num_threads(2).chunk_size(1).cloned().first(); r });

src_harness!(k_src_iter_par, d, vec3(d).into_iter().filter(|_| true).par(),
    vec3(d).into_iter().filter(|_| true).par().num_threads(2).chunk_size(1).reduce(|a, b| a ^ b),
    vec3(d).into_iter().filter(|_| true).par().num_threads(2).chunk_size(1).first());

#[kani::proof]
#[kani::unwind(6)]
#[kani::stub(crate::core::runner::Runner::run, crate::core::verif_kani::stub_run)]
#[kani::stub(crate::core::runner::Runner::run_map, crate::core::verif_kani::stub_run_map)]
#[kani::stub(crate::core::runner::Runner::reduce, crate::core::verif_kani::stub_reduce)]
fn k_src_range_into_par() {
    let _l = Log::new();
    let lo: usize = kani::any();
    kani::assume(lo <= 5);
    set_run(1, 1, 1, 1);
    let n = (lo..lo + 3).into_par().num_threads(2).chunk_size(1).count();
    assert!(n == 3, "C01,C04: a range source does not deliver every element exactly once");
    set_run(1, 1, 1, 1);
    let s = (lo..lo + 3).into_par().num_threads(2).chunk_size(1).reduce(|a, b| a + b);
    assert!(s == Some(3 * lo + 3), "C01,C03: a range source delivers wrong elements");
    set_run(1, 1, 1, 1);
    let f = (lo..lo + 3).into_par().num_threads(2).chunk_size(1).first();
    assert!(f == Some(lo), "C01,C02: first() of a range is not its start");
}

// ------------------------------------------------------------------------------------------
// std collections (src/into/as_par.rs mod impl_std_collections): `par()` must deliver what the collection's own
// iterator yields. VecDeque with a WRAPPED ring buffer (as_slices() has two non-empty halves), LinkedList, BinaryHeap.
// The oracle is the collection's iterator itself. (HashSet / HashMap / BTreeSet / BTreeMap are the same one-line
// pattern `ParEmpty::new(self.iter().into_con_iter())`; their std implementations are beyond CBMC.)

macro_rules! coll_harness {
    ($name:ident, $d:ident, $build:expr) => {
        #[kani::proof]
        #[kani::unwind(8)]
        #[kani::stub(crate::core::runner::Runner::run, crate::core::verif_kani::stub_run)]
        #[kani::stub(crate::core::runner::Runner::run_map, crate::core::verif_kani::stub_run_map)]
        #[kani::stub(crate::core::runner::Runner::reduce, crate::core::verif_kani::stub_reduce)]
        fn $name() {
            let _l = Log::new();
            let $d = any3();
            let coll = $build;
            let exp_n = coll.iter().count();
            let exp_x = coll.iter().copied().reduce(|a, b| a ^ b);
            let exp_f = coll.iter().next().copied();
            set_run(1, 1, 1, 1);
            let n = coll.par().num_threads(2).chunk_size(1).count();
            assert!(n == exp_n, "C01,C04: par() of a std collection does not deliver every element of its iterator exactly once");
            set_run(1, 1, 1, 1);
            let x = coll.par().num_threads(2).chunk_size(1).copied().reduce(|a, b| a ^ b);
            assert!(x == exp_x, "C01,C03: par() of a std collection delivers wrong elements");
            set_run(1, 1, 1, 1);
            let f = coll.par().num_threads(2).chunk_size(1).copied().first();
            assert!(f == exp_f, "C01,C02: the first element of the computation is not the first element of the collection's iterator");
            kani::cover!(exp_n == 3);
        }
    };
}

coll_harness!(k_src_vecdeque_wrapped_par, d, {
    let mut q: std::collections::VecDeque<u8> = std::collections::VecDeque::with_capacity(4);
    q.push_back(d[0]);
    q.push_back(d[1]);
    q.push_front(d[2]); // wraps: as_slices() == ([d2], [d0, d1])
    q
});

coll_harness!(k_src_linkedlist_par, d, {
    let mut q: std::collections::LinkedList<u8> = std::collections::LinkedList::new();
    q.push_back(d[0]);
    q.push_back(d[1]);
    q.push_back(d[2]);
    q
});

coll_harness!(k_src_binaryheap_par, d, {
    let mut q: std::collections::BinaryHeap<u8> = std::collections::BinaryHeap::with_capacity(4);
    q.push(d[0]);
    q.push(d[1]);
    q.push(d[2]);
    q
});
