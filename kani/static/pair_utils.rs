
#[cfg(kani)]
mod vk_pair {
    use super::*;

    #[kani::proof]
    fn k_pair_div_ceil() {
        let number: usize = kani::any();
        let divider: usize = kani::any();
        kani::assume(divider > 0);
        let r = div_ceil(number, divider);
        assert!((r as u128) * (divider as u128) >= number as u128, "C15: div_ceil upper");
        if number > 0 {
            assert!(r >= 1 && ((r - 1) as u128) * (divider as u128) < number as u128, "C15: div_ceil lower");
        } else {
            assert!(r == 0, "C15: div_ceil(0, d) == 0");
        }
    }
}
