
#[cfg(kani)]
mod vk_pair {
    use super::*;

    fn any_avail() -> Result<NonZeroUsize, std::io::Error> {
        let a: usize = kani::any();
        kani::assume(1 <= a && a <= (1 << 40));
        Ok(NonZeroUsize::new(a).unwrap())
    }

    #[kani::proof]
    fn k_pair_set_num_threads() {
        let input_len: Option<usize> = kani::any();
        let num_threads: usize = kani::any();
        let avail = any_avail();
        let a: usize = match &avail {
            Ok(x) => x.get(),
            Err(_) => 0,
        };
        let r = set_num_threads(input_len, avail, num_threads);
        assert!(r <= num_threads, "C08,C15: set_num_threads must not exceed the requested Max(n)");
        assert!(r <= a, "C15: set_num_threads must not exceed available parallelism");
        if let Some(l) = input_len {
            assert!(r <= l, "C15: set_num_threads must not exceed the input length");
        }
    }

    #[kani::proof]
    fn k_pair_auto_num_threads() {
        let input_len: Option<usize> = kani::any();
        let avail = any_avail();
        let a: usize = match &avail {
            Ok(x) => x.get(),
            Err(_) => 0,
        };
        let r = auto_num_threads(input_len, avail);
        assert!(r <= a, "C15: auto_num_threads must not exceed available parallelism");
        match input_len {
            Some(l) => assert!(r <= l, "C15: auto_num_threads must not exceed the input length"),
            None => assert!(r <= MAX_UNSET_NUM_THREADS, "C15: auto_num_threads with unknown length is capped"),
        }
    }
}
