//! T1 conformance (sequential part only): the REAL concurrent iterators of orx-concurrent-iter 1.30.0,
//! driven from one thread, behave like the model in model.rs: pulls return consecutive disjoint position
//! ranges in increasing order that cover the source, `idx`/`begin_idx` is the source position, a pull of size c
//! returns c elements except at the end, after `skip_to_end` every pull returns None, `try_get_len` reports the
//! number of remaining elements. Atomicity under real concurrency stays assumed.
use super::*;
use orx_concurrent_iter::{ConcurrentIter, ConcurrentIterX, IntoConcurrentIter, IterIntoConcurrentIter};

fn check_protocol<I: ConcurrentIter<Item = u8>>(it: I, data: [u8; 3], known_len: bool) {
    if known_len {
        assert!(it.try_get_len() == Some(3), "T1: initial length");
    }
    // pull 1 element, then a chunk of 2 (covers the source), then nothing is left
    let a = it.next_id_and_value();
    match a {
        Some(n) => {
            assert!(n.idx == 0 && n.value == data[0], "T1: first pull is position 0");
        }
        None => assert!(false, "T1: non-empty source returned None"),
    }
    if known_len {
        assert!(it.try_get_len() == Some(2), "T1: try_get_len is the number of remaining elements");
    }
    let mut seen = 0usize;
    {
        let c = it.next_chunk(2);
        match c {
            Some(chunk) => {
                assert!(chunk.begin_idx == 1, "T1: chunk begins at the next position");
                let mut vals = chunk.values;
                assert!(vals.len() == 2, "T1: a pull of size c returns c elements when they exist");
                let x = vals.next();
                let y = vals.next();
                assert!(x == Some(data[1]) && y == Some(data[2]), "T1: chunk values are the source elements in order");
                assert!(vals.next().is_none());
                seen = 2;
            }
            None => assert!(false, "T1: chunk pull returned None although elements remain"),
        }
    }
    assert!(seen == 2);
    assert!(it.next_id_and_value().is_none(), "T1: exhausted source returns None");
    assert!(it.next_chunk(2).is_none(), "T1: exhausted source returns None for chunks");
}

fn check_skip<I: ConcurrentIter<Item = u8>>(it: I) {
    let a = it.next_id_and_value();
    assert!(a.is_some());
    it.skip_to_end();
    assert!(it.next_id_and_value().is_none(), "T1: after skip_to_end every pull returns None");
    assert!(it.next_chunk(2).is_none(), "T1: after skip_to_end every chunk pull returns None");
    assert!(it.next().is_none(), "T1: after skip_to_end next() returns None");
}

fn any3() -> [u8; 3] {
    [kani::any(), kani::any(), kani::any()]
}

#[kani::proof]
#[kani::unwind(6)]
fn k_dep_vec_protocol() {
    let d = any3();
    let mut v = Vec::with_capacity(3);
    v.push(d[0]);
    v.push(d[1]);
    v.push(d[2]);
    check_protocol(v.into_con_iter(), d, true);
}

#[kani::proof]
#[kani::unwind(6)]
fn k_dep_vec_skip() {
    let d = any3();
    let mut v = Vec::with_capacity(3);
    v.push(d[0]);
    v.push(d[1]);
    v.push(d[2]);
    check_skip(v.into_con_iter());
}

#[kani::proof]
#[kani::unwind(6)]
fn k_dep_iter_protocol() {
    let d = any3();
    let it = (0..3usize).map(move |i| d[i]).filter(|_| true);
    check_protocol(it.into_con_iter(), d, false);
}

#[kani::proof]
#[kani::unwind(6)]
fn k_dep_iter_skip() {
    let d = any3();
    let it = (0..3usize).map(move |i| d[i]).filter(|_| true);
    check_skip(it.into_con_iter());
}

/// KF-C15-1 (known finding, dependency): user chunk sizes are handed to the concurrent iterator unclamped and its
/// position counter is a wrapping fetch_add: with chunk size 2^63 the third pull wraps the counter to 0 and
/// delivers the first elements AGAIN (natively: `Exact(1<<63)`, 2 threads, 10 elements: count() == 20).
#[kani::proof]
#[kani::unwind(6)]
fn k_dep_huge_chunk_wraps() {
    let d = any3();
    let mut v = Vec::with_capacity(3);
    v.push(d[0]);
    v.push(d[1]);
    v.push(d[2]);
    let it = v.into_con_iter();
    let c: usize = 1 << 63;
    let mut delivered = 0usize;
    let mut k = 0;
    while k < 3 {
        if let Some(chunk) = it.next_chunk_x(c) {
            delivered += chunk.len();
        }
        k += 1;
    }
    assert!(delivered == 3, "C15: with a chunk size of 2^63 the source delivers elements twice (position counter of the dependency wraps)");
}

// ---- T3 conformance (bounded): the REAL orx-priority-queue BinaryHeap behaves like the min-queue specification used
// by the Verus unit `merge` (external_body specs): pop_node returns a node with a minimal key and removes it,
// push_then_pop(n, k) inserts and pops a minimal entry; None iff empty. Three entries, symbolic distinct keys.
use orx_priority_queue::{BinaryHeap, PriorityQueue};

fn heap3(k: [u8; 3]) -> BinaryHeap<usize, u8> {
    let mut q = BinaryHeap::with_capacity(3);
    q.push(0usize, k[0]);
    q.push(1usize, k[1]);
    q.push(2usize, k[2]);
    q
}

#[kani::proof]
#[kani::unwind(6)]
fn k_dep_heap_pop_order() {
    let k = any3();
    kani::assume(k[0] != k[1] && k[0] != k[2] && k[1] != k[2]);
    let mut q = heap3(k);
    let a = q.pop_node();
    let b = q.pop_node();
    let c = q.pop_node();
    let d = q.pop_node();
    match (a, b, c) {
        (Some(a), Some(b), Some(c)) => {
            assert!(a < 3 && b < 3 && c < 3 && a != b && a != c && b != c, "T3: every pushed node is popped exactly once");
            assert!(k[a] < k[b] && k[b] < k[c], "T3: pop_node returns nodes in increasing key order");
        }
        _ => assert!(false, "T3: three entries must yield three pops"),
    }
    assert!(d.is_none(), "T3: pop_node on an empty queue returns None");
}

#[kani::proof]
#[kani::unwind(6)]
fn k_dep_heap_push_then_pop() {
    let k = any3();
    let x: u8 = kani::any();
    kani::assume(k[0] != k[1] && x != k[0] && x != k[1]);
    let mut q = BinaryHeap::with_capacity(3);
    q.push(0usize, k[0]);
    q.push(1usize, k[1]);
    let (n, key) = q.push_then_pop(2usize, x);
    let min = if k[0] < k[1] { k[0] } else { k[1] };
    let min = if x < min { x } else { min };
    assert!(key == min, "T3: push_then_pop returns a minimal key of the queue plus the new entry");
    assert!((n == 2 && key == x) || (n < 2 && key == k[n]), "T3: push_then_pop returns the node that carries the returned key");
    // the two remaining entries come out in order
    let a = q.pop_node();
    let b = q.pop_node();
    assert!(a.is_some() && b.is_some() && q.pop_node().is_none(), "T3: two entries remain after push_then_pop");
}

// ---- T2 conformance (bounded): the REAL ConcurrentOrderedBag over a FixedVec keeps the pre-existing element, places
// values at the positions written (in any write order) and hands back the positions [0, len) when each was written once.
#[kani::proof]
#[kani::unwind(10)]
fn k_dep_bag_positions() {
    use orx_concurrent_ordered_bag::ConcurrentOrderedBag;
    use orx_fixed_vec::FixedVec;
    use orx_pinned_vec::PinnedVec;
    let d = any3();
    let mut fixed: FixedVec<u8> = FixedVec::new(3);
    fixed.push(d[0]);
    let bag: ConcurrentOrderedBag<u8, FixedVec<u8>> = fixed.into();
    assert!(bag.len() == 1, "T2: len() right after conversion is the number of pre-existing elements");
    // written out of order: position 2 first, then position 1
    unsafe { bag.set_value(2, d[2]) };
    unsafe { bag.set_values(1, [d[1]].into_iter()) };
    let out: FixedVec<u8> = unsafe { bag.into_inner().unwrap_only_if_counts_match() };
    assert!(out.len() == 3, "T2: all written positions are handed back");
    assert!(out[0] == d[0] && out[1] == d[1] && out[2] == d[2], "T2: values sit at the positions they were written to; existing contents untouched");
}
