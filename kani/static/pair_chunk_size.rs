
// ---- injected by /verif (scratch copy only): loop-free Kani statements of the Verus contracts of this
// file's functions, over full-domain symbolic inputs (complete, not bounded). Used to obtain concrete
// counterexamples when the corresponding Verus obligation fails.
#[cfg(kani)]
mod vk_pair {
    use super::*;
    const HW_MAX: usize = 1 << 40;

    fn any_task() -> ParTask {
        let k: u8 = kani::any();
        match k % 3 {
            0 => ParTask::Collect,
            1 => ParTask::EarlyReturn,
            _ => ParTask::Reduce,
        }
    }

    #[kani::proof]
    fn k_pair_min_chunk_size() {
        let input_len: Option<usize> = kani::any();
        let max_num_threads: usize = kani::any();
        let chunk_size: usize = kani::any();
        kani::assume(1 <= max_num_threads && 1 <= chunk_size);
        let r = min_chunk_size(input_len, max_num_threads, chunk_size);
        assert!(1 <= r, "C15: min_chunk_size must be >= 1");
        assert!(r <= chunk_size, "C15: min_chunk_size must not exceed the requested size");
    }

    #[kani::proof]
    #[kani::unwind(23)]
    fn k_pair_auto_chunk_size() {
        let input_len: Option<usize> = kani::any();
        let max_num_threads: usize = kani::any();
        kani::assume(1 <= max_num_threads && max_num_threads <= HW_MAX);
        let r = auto_chunk_size(any_task(), input_len, max_num_threads);
        assert!(1 <= r && r <= INITIAL_CHUNK_SIZE, "C15: auto_chunk_size must be in [1, 2^20]");
    }

    #[kani::proof]
    #[kani::unwind(23)]
    fn k_pair_calc_chunk_size() {
        let input_len: Option<usize> = kani::any();
        let max_num_threads: usize = kani::any();
        kani::assume(1 <= max_num_threads && max_num_threads <= HW_MAX);
        let x: usize = kani::any();
        kani::assume(x >= 1);
        let nz = std::num::NonZeroUsize::new(x).unwrap();
        let k: u8 = kani::any();
        let cs = match k % 3 {
            0 => ChunkSize::Auto,
            1 => ChunkSize::Min(nz),
            _ => ChunkSize::Exact(nz),
        };
        let r = calc_chunk_size(any_task(), input_len, max_num_threads, cs);
        assert!(r.inner() >= 1, "C15: resolved chunk size must be >= 1");
        match cs {
            ChunkSize::Exact(_) => assert!(r == ResolvedChunkSize::Exact(x), "C11: Exact(x) must resolve to Exact(x)"),
            _ => assert!(matches!(r, ResolvedChunkSize::Min(_)), "C11: only Exact may resolve to Exact"),
        }
    }
}
