//! C13 (bounded): drop-counting item type through the public API over the REAL ConIterOfVec source
//! (workers run one after another by the Runner contract stubs; the merge is its contract stub, whose
//! real body is covered by the Verus ledger). After the result is dropped every item must have been
//! dropped exactly once.
use super::*;
use crate::par::par_empty::ParEmpty;
use crate::Par;
use orx_concurrent_iter::IntoConcurrentIter;
use std::cell::Cell;

pub struct DropLog {
    n: [Cell<u8>; 4],
}
unsafe impl Sync for DropLog {}
unsafe impl Send for DropLog {}

pub struct D<'a> {
    id: u8,
    v: u8,
    log: &'a DropLog,
}
impl Drop for D<'_> {
    fn drop(&mut self) {
        let c = &self.log.n[self.id as usize];
        c.set(c.get() + 1);
    }
}

fn items<'a>(log: &'a DropLog) -> Vec<D<'a>> {
    let mut v = Vec::with_capacity(3);
    v.push(D { id: 0, v: kani::any(), log });
    v.push(D { id: 1, v: kani::any(), log });
    v.push(D { id: 2, v: kani::any(), log });
    v
}

fn all_dropped_once(log: &DropLog) -> bool {
    log.n[0].get() == 1 && log.n[1].get() == 1 && log.n[2].get() == 1
}

fn none_dropped_twice(log: &DropLog) -> bool {
    log.n[0].get() <= 1 && log.n[1].get() <= 1 && log.n[2].get() <= 1
}

#[kani::proof]
#[kani::unwind(6)]
#[kani::stub(crate::core::runner::Runner::run, crate::core::verif_kani::stub_run)]
#[kani::stub(crate::core::runner::Runner::run_map, crate::core::verif_kani::stub_run_map)]
#[kani::stub(crate::core::runner::Runner::reduce, crate::core::verif_kani::stub_reduce)]
#[kani::stub(crate::core::map_fil_col::heap_sort_into_vec, crate::core::verif_kani::stub_heap_sort_into_vec)]
fn k_drop_filter_collect_vec() {
    let dl = DropLog { n: Default::default() };
    let _l = Log::new();
    set_run(1, 1, 1, 1);
    let ft: [bool; 2] = [kani::any(), kani::any()];
    {
        let src = items(&dl);
        let out = ParEmpty::new(src.into_con_iter())
            .num_threads(2)
            .chunk_size(1)
            .filter(move |d: &D| ft[(d.v % 2) as usize])
            .collect_vec();
        assert!(none_dropped_twice(&dl), "C13: an element was dropped twice before the result is dropped");
        kani::cover!(out.len() == 1);
        kani::cover!(out.len() == 3);
    }
    assert!(all_dropped_once(&dl), "C13: after the result is dropped every element must have been dropped exactly once (leak or double drop)");
}

#[kani::proof]
#[kani::unwind(6)]
#[kani::stub(crate::core::runner::Runner::run, crate::core::verif_kani::stub_run)]
#[kani::stub(crate::core::runner::Runner::run_map, crate::core::verif_kani::stub_run_map)]
#[kani::stub(crate::core::runner::Runner::reduce, crate::core::verif_kani::stub_reduce)]
fn k_drop_find_early_exit() {
    let dl = DropLog { n: Default::default() };
    let _l = Log::new();
    set_run(1, 1, 1, 1);
    let pt: [bool; 2] = [kani::any(), kani::any()];
    {
        let src = items(&dl);
        let found = ParEmpty::new(src.into_con_iter())
            .num_threads(2)
            .chunk_size(1)
            .find(move |d: &D| pt[(d.v % 2) as usize]);
        assert!(none_dropped_twice(&dl), "C13: an element was dropped twice");
        kani::cover!(found.is_some());
        kani::cover!(found.is_none());
    }
    assert!(all_dropped_once(&dl), "C13: elements skipped by early exit must be dropped exactly once (leak or double drop)");
}

#[kani::proof]
#[kani::unwind(10)]
#[kani::stub(crate::core::runner::Runner::run, crate::core::verif_kani::stub_run)]
#[kani::stub(crate::core::runner::Runner::run_map, crate::core::verif_kani::stub_run_map)]
#[kani::stub(crate::core::runner::Runner::reduce, crate::core::verif_kani::stub_reduce)]
fn k_drop_map_collect_vec_bag() {
    let dl = DropLog { n: Default::default() };
    let _l = Log::new();
    set_run(1, 1, 1, 1);
    {
        let src = items(&dl);
        let out = ParEmpty::new(src.into_con_iter()).num_threads(2).chunk_size(1).map(|d: D| d).collect_vec();
        assert!(dl.n[0].get() == 0 && dl.n[1].get() == 0 && dl.n[2].get() == 0, "C13: an element handed back to the caller was dropped");
        kani::cover!(out.len() == 3);
    }
    assert!(all_dropped_once(&dl), "C13: after the result is dropped every element must have been dropped exactly once");
}

// ---- the REAL merge (no stub) on the smallest shape that distinguishes "every vector is emptied" from
// "emptied up to the first empty one": worker 0 returned nothing, worker 1 one element.
fn real_merge_vectors<'a>(dl: &'a DropLog) -> Vec<Vec<(usize, D<'a>)>> {
    let mut v0: Vec<(usize, D<'a>)> = Vec::new();
    let mut v1: Vec<(usize, D<'a>)> = Vec::with_capacity(1);
    v1.push((0usize, D { id: 0, v: kani::any(), log: dl }));
    let mut vs = Vec::with_capacity(2);
    vs.push(v0);
    vs.push(v1);
    vs
}

#[kani::proof]
#[kani::unwind(6)]
fn k_drop_real_merge_vec() {
    let dl = DropLog { n: Default::default() };
    {
        let mut out: Vec<D> = Vec::with_capacity(2);
        crate::core::map_fil_col::heap_sort_into_vec(real_merge_vectors(&dl), &mut out);
        assert!(out.len() == 1, "C01: the merge lost or invented an element");
        assert!(dl.n[0].get() == 0, "C13: the merge dropped an element that it handed to the output (the source vectors must be emptied without dropping)");
    }
    assert!(dl.n[0].get() == 1, "C13: after the result is dropped the element must have been dropped exactly once");
}

#[kani::proof]
#[kani::unwind(6)]
fn k_drop_real_merge_pinned_vec() {
    use orx_pinned_vec::PinnedVec;
    let dl = DropLog { n: Default::default() };
    {
        let mut out: orx_split_vec::SplitVec<D> = orx_split_vec::SplitVec::new();
        crate::core::map_fil_col::heap_sort_into_pinned_vec(real_merge_vectors(&dl), &mut out);
        assert!(out.len() == 1, "C01: the merge lost or invented an element");
        assert!(dl.n[0].get() == 0, "C13: the merge dropped an element that it handed to the output (the source vectors must be emptied without dropping)");
    }
    assert!(dl.n[0].get() == 1, "C13: after the result is dropped the element must have been dropped exactly once");
}

// ------------------------------------------------------------------------------------------
// The REAL merge on the shapes the two-vector drop harnesses do not reach: ONE worker vector (the resolved thread count is
// 1 for inputs of length 0 or 1 even with parallel parameters) and a non-empty output. C06: the previous contents stay in
// front; C01: the merged elements follow in key order.

fn one_vector(a: u8, b: u8) -> Vec<Vec<(usize, u8)>> {
    let mut v0: Vec<(usize, u8)> = Vec::with_capacity(2);
    v0.push((0, a));
    v0.push((1, b));
    let mut vs = Vec::with_capacity(1);
    vs.push(v0);
    vs
}

fn two_vectors(a: u8, b: u8) -> Vec<Vec<(usize, u8)>> {
    let mut v0: Vec<(usize, u8)> = Vec::with_capacity(1);
    v0.push((1, b));
    let mut v1: Vec<(usize, u8)> = Vec::with_capacity(1);
    v1.push((0, a));
    let mut vs = Vec::with_capacity(2);
    vs.push(v0);
    vs.push(v1);
    vs
}

macro_rules! merge_prefix_harness {
    ($name:ident, $vectors:ident, vec) => {
        #[kani::proof]
        #[kani::unwind(6)]
        fn $name() {
            let (p, a, b): (u8, u8, u8) = (kani::any(), kani::any(), kani::any());
            let mut out: Vec<u8> = Vec::with_capacity(4);
            out.push(p);
            crate::core::map_fil_col::heap_sort_into_vec($vectors(a, b), &mut out);
            assert!(out.len() == 3, "C01,C06: the merge lost or invented an element, or dropped the previous contents of the output");
            assert!(out[0] == p, "C06: the previous contents of the output were disturbed by the merge");
            assert!(out[1] == a && out[2] == b, "C01,C06: the merged elements do not follow the previous contents in key order");
        }
    };
    ($name:ident, $vectors:ident, pinned) => {
        #[kani::proof]
        #[kani::unwind(6)]
        fn $name() {
            use orx_pinned_vec::PinnedVec;
            let (p, a, b): (u8, u8, u8) = (kani::any(), kani::any(), kani::any());
            let mut out: orx_split_vec::SplitVec<u8> = orx_split_vec::SplitVec::new();
            out.push(p);
            crate::core::map_fil_col::heap_sort_into_pinned_vec($vectors(a, b), &mut out);
            assert!(out.len() == 3, "C01,C06: the merge lost or invented an element, or dropped the previous contents of the output");
            assert!(*out.get(0).unwrap() == p, "C06: the previous contents of the output were disturbed by the merge");
            assert!(*out.get(1).unwrap() == a && *out.get(2).unwrap() == b, "C01,C06: the merged elements do not follow the previous contents in key order");
        }
    };
}

merge_prefix_harness!(k_merge_real_one_vector_prefix_vec, one_vector, vec);
merge_prefix_harness!(k_merge_real_two_vectors_prefix_vec, two_vectors, vec);
merge_prefix_harness!(k_merge_real_one_vector_prefix_pinned, one_vector, pinned);
merge_prefix_harness!(k_merge_real_two_vectors_prefix_pinned, two_vectors, pinned);
