
#[cfg(kani)]
mod vk_pair {
    use super::*;

    fn any_has_more() -> HasMore {
        let k: u8 = kani::any();
        match k % 3 {
            0 => HasMore::No,
            1 => HasMore::Maybe,
            _ => HasMore::Yes(kani::any()),
        }
    }

    /// a Runner satisfying wf(): 1 <= max_num_threads <= 2^40, chunk >= 1
    fn any_runner() -> Runner {
        let max_num_threads: usize = kani::any();
        kani::assume(1 <= max_num_threads && max_num_threads <= (1 << 40));
        let x: usize = kani::any();
        kani::assume(x >= 1);
        let chunk_size = if kani::any() { ResolvedChunkSize::Exact(x) } else { ResolvedChunkSize::Min(x) };
        Runner { _task: ParTask::Collect, input_len: kani::any(), max_num_threads, chunk_size }
    }

    fn pre(r: &Runner, hm: &HasMore) -> bool {
        match (hm, r.input_len) {
            (HasMore::Yes(rem), Some(l)) => *rem <= l,
            _ => true,
        }
    }

    #[kani::proof]
    fn k_pair_do_spawn() {
        let r = any_runner();
        let num_spawned: usize = kani::any();
        let hm = any_has_more();
        kani::assume(pre(&r, &hm));
        let no = matches!(hm, HasMore::No);
        let b = r.do_spawn(num_spawned, hm);
        if b {
            assert!(num_spawned < usize::MAX && num_spawned + 1 < r.max_num_threads, "C08: do_spawn must leave room for the last worker");
            assert!(!no, "C10: do_spawn must refuse once the source is exhausted");
        }
    }

    #[kani::proof]
    fn k_pair_next_chunk_size() {
        let r = any_runner();
        let num_spawned: usize = kani::any();
        let hm = any_has_more();
        kani::assume(pre(&r, &hm));
        let no = matches!(hm, HasMore::No);
        let got = r.next_chunk_size(num_spawned, hm);
        if let Some(c) = got {
            assert!(c >= 1, "C15: next chunk size must be >= 1");
            assert!(num_spawned < usize::MAX && num_spawned + 1 < r.max_num_threads, "C08: next_chunk_size must leave room for the last worker");
            if let ResolvedChunkSize::Exact(x) = r.chunk_size {
                assert!(c == x, "C11: under Exact(x) every worker gets chunk size x");
            }
            assert!(!no, "C10: no further worker once the source is exhausted");
        }
    }
}
